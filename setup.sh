#!/bin/sh
# Offline set-up after a fresh restore: make sure hypothesis is importable in /venv.
/venv/bin/python -c "import hypothesis" 2>/dev/null || \
  /venv/bin/pip install --no-index --find-links /opt/veriftools/wheels hypothesis >/dev/null 2>&1
/venv/bin/python -c "import hypothesis, z3, processscheduler; print('setup ok: hypothesis', hypothesis.__version__)"
