#!/venv/bin/python
"""Turn the replays collected by revert_sweep.py --keep into /verif/regress/ and the 'fixed' list.

For every fix commit: per property one (the smallest) replay that failed on the reverted tree; each is
re-executed on the current tree and kept only if the property holds there (exit 0)."""
import glob
import json
import os
import re
import subprocess
import sys

ROOT = os.path.dirname(os.path.dirname(os.path.abspath(__file__)))


def slug(s):
    s = re.sub(r"^fix: ", "", s)
    s = re.sub(r"[^A-Za-z0-9]+", "-", s).strip("-").lower()
    return s[:48]


def main():
    log = subprocess.run("git -C /repo log --reverse --format='%h %s' --grep='^fix:'", shell=True, capture_output=True, text=True).stdout.strip().splitlines()
    kf = json.load(open(os.path.join(ROOT, "known_findings.json")))
    fixed = []
    os.makedirs(os.path.join(ROOT, "regress"), exist_ok=True)
    for f in glob.glob(os.path.join(ROOT, "regress", "*.json")):
        os.remove(f)
    for line in log:
        h, subj = line.split(" ", 1)
        d = os.path.join(ROOT, "regress_candidates", h)
        per_prop = {}
        for f in sorted(glob.glob(os.path.join(d, "*.json")), key=os.path.getsize):
            rec = json.load(open(f))
            per_prop.setdefault(rec["property"], f)
        kept = []
        for prop, f in sorted(per_prop.items()):
            dst = os.path.join("regress", f"{prop}-{h}-{slug(subj)}.json")
            rec = json.load(open(f))
            rec["fixed_by"] = h
            with open(os.path.join(ROOT, dst), "w") as fh:
                json.dump(rec, fh, indent=1, sort_keys=True)
            r = subprocess.run([os.path.join(ROOT, "check"), prop, "--replay", dst], capture_output=True, text=True, cwd=ROOT)
            if r.returncode != 0:
                print(f"!! {dst} does not hold on the current tree: {r.stdout[-300:]}")
                os.remove(os.path.join(ROOT, dst))
                continue
            kept.append((prop, dst))
        props = ",".join(sorted({p for p, _ in kept})) or "-"
        what = re.sub(r"^fix: ", "", subj)
        for prop, dst in kept:
            fixed.append(f"fixed: property={prop} {h} {what} (replay {dst})")
        if not kept:
            fixed.append(f"fixed: property=- {h} {what} (no replay kept: see DESIGN.md section 11)")
        print(h, props, len(kept))
    kf["fixed"] = fixed
    with open(os.path.join(ROOT, "known_findings.json"), "w") as fh:
        json.dump(kf, fh, indent=1)


if __name__ == "__main__":
    sys.exit(main())
