#!/venv/bin/python
"""Regenerate /verif/MANIFEST.json from the property modules that exist."""
import importlib
import json
import os
import sys

ROOT = os.path.dirname(os.path.dirname(os.path.abspath(__file__)))
sys.path.insert(0, ROOT)
os.environ.setdefault("VF_REPO", "/repo")
sys.path.insert(0, os.environ["VF_REPO"])

props = [json.loads(l) for l in open(os.path.join(ROOT, "properties.jsonl"))]
checks, na = [], []
for p in props:
    pid = p["id"]
    path = os.path.join(ROOT, "vf", "props", pid.lower() + ".py")
    if not os.path.exists(path):
        na.append({"property_id": pid, "reason": "check not built yet in this revision (planned, see DESIGN.md section 4); nothing is claimed"})
        continue
    mod = importlib.import_module(f"vf.props.{pid.lower()}")
    checks.append(
        {
            "property_id": pid,
            "quick_cmd": f"./check {pid} quick",
            "thorough_cmd": f"./check {pid} thorough",
            "evidence_file": f"evidence/{pid}.json",
            "replay_cmd_template": f"./check {pid} --replay {{path}}",
            "engine": "vf",
            "level_claimed": {
                "category": "exploration",
                "text": getattr(mod, "LEVEL_TEXT", "generated-input search against an explicit oracle: " + mod.RULE),
                "design_ref": getattr(mod, "DESIGN_REF", f"DESIGN.md section 4, {pid}"),
            },
            "level_note": "; ".join(getattr(mod, "ASSUMPTIONS", [])),
            "technique": getattr(mod, "TECHNIQUE", "property-based testing (Hypothesis) against a reference model"),
        }
    )
manifest = {
    "version": 1,
    "setup_cmd": "sh ./setup.sh",
    "hooks": {
        "guard": "PROCESSSCHEDULER_VERIF",
        "enable": "no source hooks are needed: checks import the working tree of /repo directly and observe it through the public API, documented task variables and read-only internals (vf/adapter.py); ./check exports PROCESSSCHEDULER_VERIF=1 for uniformity",
        "baseline_off_cmd": "cd /repo && /venv/bin/python -m pytest -ra -q -p no:cacheprovider --timeout=900 --continue-on-collection-errors",
        "source_commits": [],
        "add_only": True,
    },
    "engines": [
        {
            "name": "vf",
            "path": "vf/",
            "serves_properties": [c["property_id"] for c in checks],
            "kind_free_text": "Hypothesis-driven generators of problem specs, steering pins, candidate schedules and call histories; z3-free reference semantics as oracle; sharded over 16 processes",
        }
    ],
    "checks": checks,
    "not_applicable": na,
    "notes": "Known findings: known_findings.json; regression replays of fixed findings: regress/; seeded breakages used for sensitivity testing: seeded/.",
}
with open(os.path.join(ROOT, "MANIFEST.json"), "w") as fh:
    json.dump(manifest, fh, indent=1)
print(f"{len(checks)} checks, {len(na)} not yet claimed")
