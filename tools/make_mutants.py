#!/venv/bin/python
"""Hand-written mutants (DESIGN.md section 7): (id, file, old, new, checks).  Generates /verif/mutants/<id>.patch from
/repo HEAD and, with --run, executes the listed checks against each one through mutant_run.py."""
import os
import subprocess
import sys
import tempfile
import shutil

ROOT = os.path.dirname(os.path.dirname(os.path.abspath(__file__)))
M = [
    ("C01-fixed-start-ge-0", "processscheduler/task.py", "            self._end - self._start == self.duration,\n            self._start >= 0,\n", "            self._end - self._start == self.duration,\n", "C01"),
    ("C01-horizon-bound", "processscheduler/solver.py", "            self.append_z3_assertion(task._end <= self.problem._horizon)\n", "            self.append_z3_assertion(task._start <= self.problem._horizon)\n", "C01"),
    ("C02-nonoverlap-loop", "processscheduler/solver.py", "                for k in range(i + 1, nb_intervals):", "                for k in range(i + 2, nb_intervals):", "C02"),
    ("C02-select-min-as-max", "processscheduler/resource.py", 'problem_function = {"min": z3.PbGe, "max": z3.PbLe, "exact": z3.PbEq}\n\n        # TODO: move to the validator', 'problem_function = {"min": z3.PbLe, "max": z3.PbLe, "exact": z3.PbEq}\n\n        # TODO: move to the validator', "C02"),
    ("C02-work-amount-productivity", "processscheduler/solver.py", "                    work_contribution = required_resource.productivity * (\n                        interv_up - interv_low\n                    )", "                    work_contribution = max(required_resource.productivity, 1) * (\n                        interv_up - interv_low\n                    )", "C02"),
    ("C03-precedence-lax-as-strict", "processscheduler/task_constraint.py", '        if self.kind == "lax":\n            scheduled_assertion = lower <= upper', '        if self.kind == "lax":\n            scheduled_assertion = lower < upper', "C05,C03"),
    ("C03-precedence-strict-as-lax", "processscheduler/task_constraint.py", '        elif self.kind == "strict":\n            scheduled_assertion = lower < upper', '        elif self.kind == "strict":\n            scheduled_assertion = lower <= upper', "C03"),
    ("C03-end-before-strict", "processscheduler/task_constraint.py", '        if self.kind == "strict":\n            scheduled_assertion = self.task._end < self.value', '        if self.kind == "strict":\n            scheduled_assertion = self.task._end <= self.value', "C03"),
    ("C04-unavailable-ge-gt", "processscheduler/resource_constraint.py", "                            start_task_i >= interval_upper_bound,\n                            end_task_i <= interval_lower_bound,\n                        )\n                    )\n\n        if not resource_assigned:\n            raise AssertionError(\n                \"The resource is not assigned to any task. Please first assign the resource to one or more tasks, and then add the ResourceUnavailable constraint.\"", "                            start_task_i >= interval_upper_bound - 1,\n                            end_task_i <= interval_lower_bound,\n                        )\n                    )\n\n        if not resource_assigned:\n            raise AssertionError(\n                \"The resource is not assigned to any task. Please first assign the resource to one or more tasks, and then add the ResourceUnavailable constraint.\"", "C04"),
    ("C04-periodic-interrupted-mask", "processscheduler/resource_constraint.py", "                mask = [core, start_task_i < 0]\n                if self.start > 0:\n                    mask.append(end_task_i <= self.start)", "                mask = [core, start_task_i < 0]\n                if self.start > 0:\n                    mask.append(start_task_i <= self.start)", "C04"),
    ("C04-tasks-distance-mode", "processscheduler/resource_constraint.py", '            elif self.mode == "max":\n                asst = sorted_starts[i] - sorted_ends[i - 1] <= self.distance', '            elif self.mode == "max":\n                asst = sorted_starts[i] - sorted_ends[i - 1] >= self.distance', "C04,C05"),
    ("C06-force-schedule-n", "processscheduler/task_constraint.py", "        sched_vars = [task._scheduled for task in self.list_of_optional_tasks]\n        asst = problem_function[self.kind](", "        sched_vars = [task._scheduled for task in self.list_of_optional_tasks[:-1]] or [self.list_of_optional_tasks[0]._scheduled]\n        asst = problem_function[self.kind](", "C06"),
    ("C07-incremental-direction", "processscheduler/solver.py", "                kind=\"min\" if self._objective.kind == \"minimize\" else \"max\",", "                kind=\"min\" if self._objective.kind != \"maximize\" or len(self.problem.tasks) == 3 else \"max\",", "C07"),
    ("C07-return-first-on-max-iter", "processscheduler/solver.py", "            # at this stage, is_sat should be sat\n            solution = self._solver.model()\n", "            # at this stage, is_sat should be sat\n            solution = solution or self._solver.model()\n", "C07"),
    ("C08-tardiness-priority", "processscheduler/indicator.py", "                    (t._end - t.due_date) * t.priority,\n                    0,", "                    (t._end - t.due_date),\n                    0,", "C08"),
    ("C08-cost-trapezoid", "processscheduler/indicator.py", "        expression = z3.Sum(constant_costs) + z3.Sum(variable_costs) / 2", "        expression = z3.Sum(constant_costs) + z3.Sum(variable_costs)", "C08"),
    ("C09-load-at-start", "processscheduler/solver.py", "            tasks_end_load = [t._end for t in buffer._loading_tasks]", "            tasks_end_load = [t._start for t in buffer._loading_tasks]", "C09"),
    ("C09-clean-levels-last", "processscheduler/util.py", "        if new_l2.count(b) < 1:\n            new_l1.append(a)\n            new_l2.append(b)", "        if new_l2.count(b) < 1:\n            new_l1.append(a)\n            new_l2.append(b)\n        else:\n            new_l1[-1] = a", "C09"),
    ("C10-xor-as-or", "processscheduler/first_order_logic.py", "        asst = z3.Xor(\n            z3.And(_get_assertions(self.constraint_1)),", "        asst = z3.Or(\n            z3.And(_get_assertions(self.constraint_1)),", "C10"),
    ("C10-operand-leaks", "processscheduler/first_order_logic.py", "        # tag this constraint as defined from an expression\n        constraint.set_created_from_assertion()\n", "        # tag this constraint as defined from an expression\n", "C10"),
    ("C10-implies-reversed", "processscheduler/first_order_logic.py", "        asst = z3.Implies(\n            self.condition,\n            z3.And(_constraints_to_list_of_assertions(self.list_of_constraints)),\n        )", "        asst = z3.Implies(\n            z3.And(_constraints_to_list_of_assertions(self.list_of_constraints)),\n            self.condition,\n        )", "C10"),
    ("C11-assignment-swapped", "processscheduler/solver.py", "                    new_resource_solution.assignments.append((task_name, start, end))", "                    new_resource_solution.assignments.append((task_name, end, start))", "C11"),
    ("C11-calendar-end", "processscheduler/solver.py", "                new_task_solution.end_time = (\n                    new_task_solution.start_time + new_task_solution.duration_time\n                )", "                new_task_solution.end_time = (\n                    new_task_solution.start_time + new_task_solution.end * self.problem.delta_time\n                )", "C11"),
    ("C12-block-and", "processscheduler/solver.py", "        self.append_z3_assertion(z3.Or(different_assertions))", "        self.append_z3_assertion(z3.And(different_assertions))", "C12"),
    ("C12-only-starts", "processscheduler/solver.py", "            different_assertions.append(t._end != self._model[t._end].as_long())\n", "", "C12"),
    ("C13-forget-pop", "processscheduler/solver.py", "        for _ in range(num_push):\n            self._solver.pop()\n", "        for _ in range(num_push - 1):\n            self._solver.pop()\n", "C13"),
    ("C14-parking-constant", "processscheduler/task.py", "            point_in_past = (\n                processscheduler.base.active_problem.get_unique_negative_integer()\n            )", "            point_in_past = -2", "C14,C05"),
    ("C15-debug-skips-assertions", "processscheduler/solver.py", "            for asst in assts:\n                asst_identifier = f\"asst_{uuid.uuid4().hex[:8]}\"", "            for asst in assts[:3]:\n                asst_identifier = f\"asst_{uuid.uuid4().hex[:8]}\"", "C15,C19"),
    ("C19-core-wrong-constraint", "processscheduler/solver.py", "                            conflicting_contraits.append(\n                                self.problem.constraints[constraint_name]\n                            )", "                            conflicting_contraits.append(\n                                list(self.problem.constraints.values())[0]\n                            )", "C19"),
    ("C19-tracking-map-shift", "processscheduler/solver.py", "                    self._map_boolrefs_to_constraints[\n                        asst_identifier\n                    ] = higher_constraint_name", "                    self._map_boolrefs_to_constraints[\n                        asst_identifier\n                    ] = sorted(self.problem.constraints)[0]", "C19"),
]


def main():
    run = "--run" in sys.argv
    only = [a for a in sys.argv[1:] if not a.startswith("--")]
    os.makedirs(os.path.join(ROOT, "mutants"), exist_ok=True)
    wt = tempfile.mkdtemp(prefix="vf_mk_", dir="/tmp")
    os.rmdir(wt)
    subprocess.run(f"git -C /repo worktree add -q --detach {wt} HEAD", shell=True, check=True)
    try:
        for mid, path, old, new, checks in M:
            p = os.path.join(wt, path)
            s = open(p).read()
            if s.count(old) != 1:
                print(f"!! {mid}: pattern found {s.count(old)} times")
                continue
            open(p, "w").write(s.replace(old, new))
            d = subprocess.run(f"git -C {wt} diff", shell=True, capture_output=True, text=True).stdout
            open(os.path.join(ROOT, "mutants", mid + ".patch"), "w").write(d)
            subprocess.run(f"git -C {wt} checkout -q -- .", shell=True)
    finally:
        subprocess.run(f"git -C /repo worktree remove --force {wt}", shell=True)
        shutil.rmtree(wt, ignore_errors=True)
    if run:
        for mid, path, old, new, checks in M:
            if only and not any(o in mid for o in only):
                continue
            r = subprocess.run([os.path.join(ROOT, "tools", "mutant_run.py"), os.path.join(ROOT, "mutants", mid + ".patch"), checks], capture_output=True, text=True)
            caught = [l.split(":")[0].split()[-1] for l in r.stdout.splitlines() if "exit=1" in l]
            print(f"{mid} [{checks}] -> {'CAUGHT by ' + ','.join(caught) if caught else 'NOT CAUGHT'}", flush=True)
            if not caught:
                print(r.stdout[-400:])


if __name__ == "__main__":
    main()
