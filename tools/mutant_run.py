#!/venv/bin/python
"""Sensitivity self-test (DESIGN.md section 7).

usage: mutant_run.py <patch.diff | revert:<commit>> <ID>[,<ID>...] [--tier quick] [--keep-replays DIR] [--seed N]

Creates a scratch worktree of /repo HEAD under /tmp, applies the patch (or reverts the given
commit), runs the listed checks against it (VF_REPO=<worktree>) and removes the worktree.
Prints one line per check: exit status and the VIOLATION lines.  Exit 0 iff every check exited 1.
"""
import os
import shutil
import subprocess
import sys
import tempfile

ROOT = os.path.dirname(os.path.dirname(os.path.abspath(__file__)))


def sh(cmd, **kw):
    return subprocess.run(cmd, shell=True, capture_output=True, text=True, **kw)


def main():
    what, ids = sys.argv[1], sys.argv[2].split(",")
    tier = "quick"
    keep = None
    seed = os.environ.get("VERIF_SEED", "1")
    args = sys.argv[3:]
    if "--tier" in args:
        tier = args[args.index("--tier") + 1]
    if "--keep-replays" in args:
        keep = args[args.index("--keep-replays") + 1]
    if "--seed" in args:
        seed = args[args.index("--seed") + 1]
    wt = tempfile.mkdtemp(prefix="vf_mut_", dir="/tmp")
    os.rmdir(wt)
    r = sh(f"git -C /repo worktree add -q --detach {wt} HEAD")
    if r.returncode:
        print("cannot create worktree", r.stderr)
        return 2
    ok = True
    try:
        if what.startswith("revert:"):
            r = sh(f"git -C {wt} revert -n {what[7:]}")
        else:
            r = sh(f"git -C {wt} apply {os.path.abspath(what)}")
        if r.returncode:
            print("cannot apply", what, r.stderr)
            return 2
        for pid in ids:
            env = dict(os.environ, VF_REPO=wt, VERIF_SEED=str(seed))
            r = subprocess.run([os.path.join(ROOT, "check"), pid, tier], capture_output=True, text=True, env=env, cwd=ROOT)
            viol = [l for l in r.stdout.splitlines() if l.startswith("VIOLATION") or l.startswith("HARNESS") or l.startswith("  bucket")]
            last = r.stdout.strip().splitlines()[-1] if r.stdout.strip() else ""
            print(f"{what} {pid}: exit={r.returncode} {last}")
            for l in viol[:6]:
                print("    " + l[:300])
            if r.returncode != 1:
                ok = False
            if keep and r.returncode == 1:
                os.makedirs(keep, exist_ok=True)
                for l in viol:
                    if "replay=" in l:
                        p = l.split("replay=")[1].strip()
                        if os.path.exists(os.path.join(ROOT, p)) and not p.startswith("regress/"):
                            shutil.copy(os.path.join(ROOT, p), os.path.join(keep, os.path.basename(p)))
    finally:
        sh(f"git -C /repo worktree remove --force {wt}")
        shutil.rmtree(wt, ignore_errors=True)
    return 0 if ok else 1


if __name__ == "__main__":
    sys.exit(main())
