#!/bin/sh
# Runs the repository's pinned suite (parallel by file; 337 expected to pass, 4 plotly tests always fail).
cd "${1:-/repo}" && /venv/bin/python -m pytest -q -p no:cacheprovider --timeout=900 -n 12 --dist loadfile 2>&1 | tail -7
