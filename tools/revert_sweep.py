#!/venv/bin/python
"""Revert each 'fix:' commit of /repo in a scratch worktree and run the checks that should notice.

usage: revert_sweep.py [--keep]     prints a table; with --keep copies one replay per caught revert to /verif/regress_candidates/
This is the sensitivity self-test of DESIGN.md section 7 for the natural mutants 'one repaired defect comes back'.
"""
import json
import os
import subprocess
import sys

ROOT = os.path.dirname(os.path.dirname(os.path.abspath(__file__)))

# subject keyword -> checks expected to catch the revert
EXPECT = [
    ("ZeroDurationTask starts", "C01,C11"),
    ("dynamically assigned resource", "C02"),
    ("ScheduleNTasksInTimeIntervals counts", "C03"),
    ("periodic resource constraints accept a CumulativeWorker", "C18"),
    ("ResourcePeriodicallyUnavailable forbids running", "C04"),
    ("ResourcePeriodicallyInterrupted applies its start/end", "C04"),
    ("ResourcePeriodicallyInterrupted keeps fixed-duration", "C04"),
    ("release date and deadline of an optional task", "C05,C06"),
    ("neither loads nor unloads its buffers", "C06,C09"),
    ("work amount of an optional task", "C05,C06"),
    ("may both unload and load the same buffer", "C05,C09"),
    ("task group without time bounds", "C05"),
    ("task groups bind their optional members", "C05,C06"),
    ("periodic resource constraints ignore busy intervals parked", "C05"),
    ("never share a point in the past", "C05,C14"),
    ("delay_in/early_out do not shift", "C05,C06"),
    ("ResourceInterrupted does not force optional", "C05,C06"),
    ("WorkLoad accepts a task that spans", "C05"),
    ("DistinctWorkers only forbids", "C05"),
    ("do not contribute to tardiness", "C06,C08"),
    ("resource utilization is the busy percentage", "C08"),
    ("sorting a single value", "C18"),
    ("accepts a single task with kind='max'", "C18"),
    ("no longer reports under the name", "C08"),
    ("optional IndicatorTarget/IndicatorBounds", "C05"),
    ("Or() takes the conjunction", "C10"),
    ("find_another_solution works on problems with optional", "C12"),
    ("incremental optimizer removes its", "C13"),
    ("optimize_priority='weight' optimises", "C07"),
    ("export_to_smt2 works with the builtin", "C16"),
    ("Excel export with colors=True", "C16"),
    ("ResourceNonDelay rejects a resource", "C18"),
    ("IndicatorResourceIdle no longer removes", "C05"),
    ("start-time objectives ignore optional", "C14,C07"),
    ("unloads and loads a NonConcurrentBuffer may be left unscheduled", "C05,C06,C09"),
    ("OrderedTaskGroup orders the scheduled members", "C06,C03"),
    ("CumulativeWorker listed in a SelectWorkers keeps its capacity", "C02,C11"),
    ("TaskPrecedence between a task group and an optional task", "C18"),
    ("already required by a task is refused as an alternative", "C02"),
    ("export_to_smt2 in debug mode asserts the tracking literals", "C16"),
    ("a constraint whose creation fails is removed from the problem", "C18"),
    ("SameWorkers / DistinctWorkers bind only the selections of scheduled tasks", "C05,C06"),
]


def main():
    keep = "--keep" in sys.argv
    only = [a for a in sys.argv[1:] if not a.startswith("--")]
    log = subprocess.run("git -C /repo log --format='%h %s' --grep='^fix:'", shell=True, capture_output=True, text=True).stdout.strip().splitlines()
    rows = []
    for line in log:
        h, subj = line.split(" ", 1)
        checks = None
        for key, cks in EXPECT:
            if key in subj:
                checks = cks
        if checks is None:
            rows.append((h, subj, "-", "no expectation registered"))
            continue
        if only and not any(o in subj or o == h for o in only):
            continue
        cmd = [os.path.join(ROOT, "tools", "mutant_run.py"), f"revert:{h}", checks]
        if keep:
            cmd += ["--keep-replays", os.path.join(ROOT, "regress_candidates", h)]
        r = subprocess.run(cmd, capture_output=True, text=True)
        caught = [l.split(":")[0].split()[-1] for l in r.stdout.splitlines() if "exit=1" in l]
        status = "CAUGHT by " + ",".join(caught) if caught else ("NOT CAUGHT" if "cannot apply" not in r.stdout else "revert does not apply")
        rows.append((h, subj, checks, status))
        print(f"{h} [{checks}] {status} :: {subj}", flush=True)
        if not caught:
            print(r.stdout[-600:], flush=True)
    with open(os.path.join(ROOT, "regress_candidates", "sweep.json") if keep else "/dev/null", "w") as fh:
        json.dump(rows, fh, indent=1)


if __name__ == "__main__":
    main()
