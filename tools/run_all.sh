#!/bin/sh
# usage: tools/run_all.sh [tier] [seed]   - runs every registered check, prints one line each
cd "$(dirname "$0")/.." || exit 2
TIER="${1:-quick}"; SEED="${2:-1}"
for p in C01 C02 C03 C04 C05 C06 C07 C08 C09 C10 C11 C12 C13 C14 C15 C16 C17 C18 C19; do
  out=$(VERIF_SEED=$SEED timeout 3000 ./check $p $TIER 2>&1); rc=$?
  echo "rc=$rc $(echo "$out" | grep -E "^$p $TIER" | tail -1)"
  echo "$out" | grep -E "^VIOLATION|HARNESS" | head -5
done
