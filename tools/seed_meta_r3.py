#!/venv/bin/python
"""Completes seeded/<id>-s3/meta.json (round 3): what the change is, what it needs to manifest, what was run, and the
result of the first verification run (before any strengthening of the checks)."""
import json
import os

ROOT = os.path.dirname(os.path.dirname(os.path.abspath(__file__)))
RUN = [
    "git apply patch.diff in a scratch worktree of /repo HEAD",
    "demo.py with PYTHONPATH=/repo (exit 0) and PYTHONPATH=<worktree> (exit 1)",
    "repository suite in the worktree: 337 passed, only the 4 plotly tests fail",
    "./check <property> quick with VF_REPO=<worktree> at VERIF_SEED=1,2,3",
]
T = {
    "C01": ("start >= release_date asserted with default 0 and the subclasses' own start >= 0 dropped: a negative release date lets a task start before 0",
            "a negative release_date and a schedule other than z3's default (pin, tight horizon or objective)", "caught 3/3", None),
    "C02": ("nested selection of a cumulative worker listed in a SelectWorkers: If(selected, count, none) replaced by Implies(selected, count)",
            "a cumulative worker as an alternative of a selection that is not chosen, while the task still occupies its slots", "caught 3/3", None),
    "C03": ("members of a fixed-window task group bound to the literal window instead of the group's start/end variables: a TaskPrecedence over the group is vacuous",
            "a task group with time_interval used as task_before / task_after of a TaskPrecedence", "missed 0/3",
            "spec/build/ref: TaskPrecedence with group operands ('GroupPrecedence', exact rule over the window unknowns); strata in C03, C05, C06, C14, C18"),
    "C04": ("ResourceInterrupted merges its interval list with a single-pass merge that assumes ascending order",
            "interruption intervals listed out of chronological order", "caught 3/3", None),
    "C05": ("symmetry breaking: the first task assigned to a cumulative worker is forced onto elementary worker 1, which carries the remainder of the productivity",
            "a cumulative worker whose productivity is not a multiple of its size, two overlapping tasks, the later-declared one with a work amount", "missed 0/3",
            "ref: exact search over the lanes of cumulative workers for work amounts (was left UNSPECIFIED); C05 stratum with cumulative workers and work amounts"),
    "C06": ("NonConcurrentBuffer: loading Store indexed by task end instead of the loading instant: the void loading instant of an unscheduled task is unconstrained",
            "an optional task that unloads and loads one non-concurrent buffer, left unscheduled, with pressure on the levels", "caught 3/3", None),
    "C09": ("ConcurrentBuffer: plain quantities again, only the first sorted slot guarded against negative instants",
            "two or more optional tasks on one concurrent buffer left unscheduled", "caught 3/3", None),
    "C10": ("optional constraints not counted by a top-level force-apply rule are not sent to the solver; rules nested in a connective are not scanned",
            "a ForceApplyNOptionalConstraints used as an operand of And/Or/Xor/Not/Implies/IfThenElse", "missed 0/3",
            "spec/ref: force-apply rules as operands (joint search over the applied flags in candidate mode, model flags in model mode); C10 and C18 strata"),
    "C07": ("create_objective registers every entry of problem.objectives with z3.Optimize, including the user objectives besides the weighted equivalent one",
            "optimizer='optimize', optimize_priority='weight', two or more objectives", "caught 3/3", None),
    "C08": ("IndicatorBounds drops a lower bound <= 0 as 'redundant'",
            "an indicator that can be negative (maximum lateness, buffer level, signed expression) with a lower bound <= 0", "caught 3/3", None),
    "C11": ("predecessors of a TaskPrecedence get no end <= horizon assertion",
            "a precedence whose successor is an optional task left unscheduled, horizon free", "caught 3/3", None),
    "C12": ("incremental optimiser returns directly when the objective reaches its declared bound, skipping the pops of its 'better than' scopes",
            "an objective over an indicator with bounds whose optimum equals the bound after >= 1 improvement, then find_another_solution", "missed 0/3",
            "C12 and C13 strata: histories whose first solve optimises an indicator with declared bounds (user expression, utilisation)"),
    "C13": ("best objective value cached across calls and asserted as a bound at the start of the next incremental optimisation",
            "an optimising solve() followed by find_another_solution*()", "caught 3/3 (patch rebased on fc298dc)", None),
    "C14": ("ResourceInterrupted: the list of overlaps is initialised per worker instead of per task: a variable-duration task is also stretched by interruptions crossed by earlier-declared tasks",
            ">= 2 variable-duration tasks on one worker under ResourceInterrupted, the earlier-declared one crossing an interruption", "missed 0/3",
            "C14 and C05 strata: several variable-duration tasks on one worker under interruptions / workloads (state carried from one task to the next)"),
    "C15": ("helper registering objectives with z3.Optimize asserts objective >= 0 before minimize",
            "optimizer='optimize' and a minimised indicator whose optimum is negative", "caught 2/3",
            "C15 stratum: minimised differences of task variables and maximum lateness (negative optima)"),
    "C16": ("Excel resource sheet drawn from the task interval (shared helper) instead of the assignment interval",
            "delay_in / early_out / dynamic assignment and an Excel export", "caught 3/3", None),
    "C17": ("resource-view tick labels sorted by name while the bars stay in declaration order",
            "resource names whose alphabetical and declaration orders differ", "caught 3/3", None),
    "C18": ("SelectWorkers registers itself with the problem before checking nb_workers_to_select <= len(list): a refused selection stays registered",
            "a refused creation followed by a look at the model (or a corrected element with the same name)", "missed 0/3",
            "C18.rejected: after every refused creation of the grid the registries of the problem must be unchanged and a well-formed element of the same name accepted"),
    "C19": ("tracked assertions of optional constraints are not mapped to their constraint: they vanish from the conflict list",
            "debug=True, an infeasible problem whose conflict involves an optional constraint forced to apply", "missed 0/3",
            "C19 stratum: optional members of the conflicts forced by a force-apply rule; a listed rule is rebuilt over void stand-ins of its unlisted members instead of skipping the case"),
}


def main():
    for pid, (change, needs, first, strengthened) in T.items():
        p = os.path.join(ROOT, "seeded", f"{pid}-s3", "meta.json")
        m = json.load(open(p))
        m["change"] = change
        m["needs_to_manifest"] = needs
        m["what_was_run"] = RUN
        m["first_run"] = first
        if strengthened:
            m["checks_strengthened"] = strengthened
        m.setdefault("suite_summary", "4 failed, 337 passed (the 4 plotly tests of test/test_plot.py, as on the unchanged tree)")
        m.setdefault("suite_ok", True)
        json.dump(m, open(p, "w"), indent=1)
        print(pid, m.get("caught_in_every_run_by"), first)


if __name__ == "__main__":
    main()
