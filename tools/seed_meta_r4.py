#!/venv/bin/python
"""Completes seeded/<id>-s4/meta.json (round 4); same fields as tools/seed_meta_r3.py."""
import json
import os

ROOT = os.path.dirname(os.path.dirname(os.path.abspath(__file__)))
RUN = [
    "git apply patch.diff in a scratch worktree of /repo HEAD",
    "demo.py with PYTHONPATH=/repo (exit 0) and PYTHONPATH=<worktree> (exit 1)",
    "repository suite in the worktree: 337 passed, only the 4 plotly tests fail",
    "./check <property> quick with VF_REPO=<worktree> at VERIF_SEED=1,2,3",
]
T = {
    "C02": ("work-amount assertion skipped for a fixed-duration task when duration x sum of the productivities of all possibly used workers reaches the amount",
            "a fixed-duration task with a work amount and an alternative, dynamic or delayed worker, and a reason to pick the insufficient choice", "caught 3/3", None),
    "C03": ("task groups get a _scheduled flag (conjunction of their optional members') and TaskPrecedence guards on it: one unscheduled optional member switches the precedence off",
            "a group with an optional member as precedence operand, that member left unscheduled while another member is scheduled", "caught 3/3", None),
    "C04": ("Same/DistinctWorkers iterate the expanded worker list of the first selection: a cumulative worker common to both selections gets no assertion",
            "a cumulative worker listed in both selections handed to SameWorkers / DistinctWorkers", "caught 1/3",
            "C04 (and C05) stratum: two selections that both list the cumulative worker under Same/DistinctWorkers"),
    "C05": ("the window end of a fixed-window task group is pinned to the interval's upper bound (==) instead of bounded by it",
            "a fixed-window group as task_before of a TaskPrecedence and a successor starting before the end of the window", "caught 3/3", None),
    "C06": ("the membership guard of optional members is dropped for groups without time bounds",
            "an unbounded group with an unscheduled optional member used as task_after of a TaskPrecedence", "caught 2/3",
            "C06 strata: group precedences with optional members for the completeness and the deletion relation"),
    "C08": ("build_solution reports max(task end) as the horizon of a problem without a declared horizon, while utilisation was computed with z3's horizon",
            "no declared horizon, a utilisation indicator, a model whose horizon is not tight", "missed 0/3",
            "engine: delivered indicator values are judged on the delivered schedule, i.e. with the horizon reported by build_solution"),
    "C09": ("the quantity functions of concurrent buffers are collected in a list that is no longer reset per buffer",
            "two concurrent buffers accessed at one instant", "caught 3/3", None),
    "C10": ("Not over an operand whose single assertion is an implication builds guard -> not body instead of not (guard -> body)",
            "Not over Implies, over a constraint on an optional task, or over an expression that is an implication", "caught 3/3", None),
    "C12": ("the value reached by the incremental optimiser is kept as a permanent bound after the pops, also when the loop was cut short",
            "an objective, max_iter (or a time limit), then find_another_solution*", "missed 0/3 by C12 (3/3 by C13)",
            "C12: the objective stratum draws max_iter for the first solve"),
    "C14": ("the weighted-sum objective gets declared bounds accumulated over the objectives; an unbounded objective met first restarts the accumulation",
            "two or more objectives (incremental), an unbounded one declared before a bounded one", "missed 0/3 by C14 (2/3 by C07)",
            "C14: objectives are permuted too, multi-objective stratum with bounded and unbounded indicators; announced optima compared directly"),
    "C18": ("set_created_from_assertion() removes the operand from problem.constraints: its name can be taken again",
            "a named constraint, nested in an operator, then another constraint of the same name", "missed 0/3",
            "C18 name mode 'dup_used_as_operand' for every constraint class"),
    "C01": ("a task that precedes a mandatory task (flag set when the TaskPrecedence is built) gets no end <= horizon; the flag stays when the precedence becomes an operand of a logical operator",
            "a fixed horizon, a precedence between mandatory tasks nested in Or / Xor / Not / Implies / IfThenElse, a schedule other than the default", "missed 0/3",
            "C01 stratum: task constraints as operands of logical operators, optional constraints, group precedences, declared horizon"),
    "C07": ("IndicatorBounds writes its limits into indicator.bounds when the indicator declares none; the incremental optimiser trusts them also when the constraint is optional or nested",
            "an objective over an indicator without declared bounds, an optional / nested IndicatorBounds created before the objective, the search passing through the bound", "missed 0/3 by C07 (3/3 by C15)",
            "C07 stratum: optional (void) IndicatorBounds / IndicatorTarget on indicators without declared bounds"),
    "C11": ("resources report (task start, task end) instead of their own busy interval",
            "delay_in / early_out / dynamic requirements", "caught 3/3", None),
    "C13": ("the iteration counter of the incremental optimiser becomes an instance attribute that is never reset: max_iter is a lifetime budget",
            "max_iter set and two optimisation runs on one solver object", "caught 3/3", None),
    "C15": ("with parallel=True the incremental optimiser pushes no scope for its bounds (and pops none): they stay in the solver",
            "parallel=True, an objective, the incremental optimiser, a second call on the same solver", "missed 0/3",
            "C15: every configuration that returned a solution is asked once more on the same solver object (same verdict, same optimum)"),
    "C16": ("after the pops the incremental optimiser deletes the last num_push tracking literals; with no push the whole list is emptied and the debug export loses its literals",
            "debug=True, an objective with the incremental optimiser that stops without pushing (infeasible, bound reached at once), export after solve", "missed 0/3",
            "C16.smt2 mode: debug + incremental optimiser with an objective"),
    "C17": ("the calendar branch of the x axis reads problem.horizon instead of solution.horizon",
            "delta_time set and no declared horizon", "caught 3/3", None),
    "C19": ("debug export_to_smt2 asserts the tracking literals on the live solver: the unsat core is empty afterwards",
            "debug=True, export_to_smt2() before solve() on an infeasible problem", "missed 0/3",
            "C19: initialize() / export_to_smt2() drawn before solve() on the debug solver"),
}


def main():
    for pid, (change, needs, first, strengthened) in T.items():
        p = os.path.join(ROOT, "seeded", f"{pid}-s4", "meta.json")
        m = json.load(open(p))
        m["change"] = change
        m["needs_to_manifest"] = needs
        m["what_was_run"] = RUN
        m["first_run"] = first
        if strengthened:
            m["checks_strengthened"] = strengthened
        m.setdefault("suite_summary", "4 failed, 337 passed (the 4 plotly tests of test/test_plot.py, as on the unchanged tree)")
        m.setdefault("suite_ok", True)
        json.dump(m, open(p, "w"), indent=1)
        print(pid, m.get("caught_in_every_run_by"), first)


if __name__ == "__main__":
    main()
