#!/venv/bin/python
"""Confirm an independently written breakage and run the checks against it.

usage: seed_verify.py <src_dir> <seed_id> <property> [checks,comma] [--no-suite]
  src_dir holds patch.diff, demo.py, notes.md (written by a sub-agent that saw only the property text).
Steps (all in a scratch worktree of /repo HEAD under /tmp, removed afterwards):
  1. patch applies; 2. demo exits 0 on /repo and 1 on the patched tree; 3. the repository's suite still passes
  (337 passed, only the 4 plotly tests fail); 4. ./check <property> quick with VF_REPO=<patched tree> at seeds 1..3.
Writes /verif/seeded/<seed_id>/{patch.diff,demo.py,notes.md,meta.json}.
"""
import json
import os
import re
import shutil
import subprocess
import sys
import tempfile

ROOT = os.path.dirname(os.path.dirname(os.path.abspath(__file__)))


def sh(cmd, **kw):
    return subprocess.run(cmd, shell=True, capture_output=True, text=True, **kw)


def main():
    src, sid, prop = sys.argv[1], sys.argv[2], sys.argv[3]
    checks = (sys.argv[4] if len(sys.argv) > 4 and not sys.argv[4].startswith("--") else prop).split(",")
    no_suite = "--no-suite" in sys.argv
    wt = tempfile.mkdtemp(prefix="vf_seed_", dir="/tmp")
    os.rmdir(wt)
    meta = {"seed_id": sid, "property": prop, "source": "fresh sub-agent given only the property text and a scratch worktree"}
    r = sh(f"git -C /repo worktree add -q --detach {wt} HEAD")
    if r.returncode:
        print("worktree failed", r.stderr)
        return 2
    try:
        meta["repo_head"] = sh("git -C /repo rev-parse --short HEAD").stdout.strip()
        r = sh(f"git -C {wt} apply {os.path.join(src, 'patch.diff')}")
        meta["patch_applies"] = r.returncode == 0
        if r.returncode:
            print("patch does not apply:", r.stderr)
            return 1
        env0 = dict(os.environ, PYTHONPATH="/repo", MPLBACKEND="Agg")
        env1 = dict(os.environ, PYTHONPATH=wt, MPLBACKEND="Agg")
        d0 = subprocess.run(["/venv/bin/python", os.path.join(src, "demo.py")], capture_output=True, text=True, env=env0, cwd="/tmp")
        d1 = subprocess.run(["/venv/bin/python", os.path.join(src, "demo.py")], capture_output=True, text=True, env=env1, cwd="/tmp")
        meta["demo_exit_on_repo"] = d0.returncode
        meta["demo_exit_on_patched"] = d1.returncode
        meta["demo_output_on_patched"] = d1.stdout[-800:]
        print(f"demo: repo={d0.returncode} patched={d1.returncode}")
        if not no_suite:
            r = sh(f"cd {wt} && PYTHONPATH={wt} /venv/bin/python -m pytest -q -p no:cacheprovider --timeout=900 -n 12 --dist loadfile 2>&1 | tail -8")
            tail = r.stdout.strip().splitlines()
            meta["suite_summary"] = tail[-1] if tail else ""
            failed = [l for l in tail if l.startswith("FAILED")]
            meta["suite_failed"] = failed
            meta["suite_ok"] = bool(re.search(r"337 passed", meta["suite_summary"])) and all("test_plot.py" in f for f in failed)
            print("suite:", meta["suite_summary"])
        runs = []
        for ck in checks:
            for seed in (1, 2, 3):
                env = dict(os.environ, VF_REPO=wt, VERIF_SEED=str(seed))
                r = subprocess.run([os.path.join(ROOT, "check"), ck, "quick"], capture_output=True, text=True, env=env, cwd=ROOT)
                rules = sorted(set(l.split("bucket ")[1].split(":")[0] for l in r.stdout.splitlines() if l.strip().startswith("bucket ")))
                last = r.stdout.strip().splitlines()[-1] if r.stdout.strip() else ""
                runs.append({"check": ck, "seed": seed, "exit": r.returncode, "buckets": rules, "summary": last})
                print(f"  {ck} seed={seed}: exit={r.returncode} {rules}")
        meta["check_runs"] = runs
        meta["caught_by"] = sorted({x["check"] for x in runs if x["exit"] == 1})
        meta["caught_in_every_run_by"] = sorted({c for c in checks if all(x["exit"] == 1 for x in runs if x["check"] == c)})
        dst = os.path.join(ROOT, "seeded", sid)
        os.makedirs(dst, exist_ok=True)
        for f in ("patch.diff", "demo.py", "notes.md"):
            if os.path.exists(os.path.join(src, f)):
                shutil.copy(os.path.join(src, f), os.path.join(dst, f))
        with open(os.path.join(dst, "meta.json"), "w") as fh:
            json.dump(meta, fh, indent=1)
    finally:
        sh(f"git -C /repo worktree remove --force {wt}")
        shutil.rmtree(wt, ignore_errors=True)
        shutil.rmtree(os.path.join(ROOT, "replays"), ignore_errors=True)
    return 0


if __name__ == "__main__":
    sys.exit(main())
