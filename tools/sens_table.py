#!/venv/bin/python
"""Re-runs every stored breakage (seeded/*/patch.diff, mutants/*.patch) against the checks that are expected to catch it, at
one VERIF_SEED, through tools/mutant_run.py (scratch worktree of /repo HEAD).  Prints one line per breakage."""
import glob
import json
import os
import re
import subprocess
import sys

ROOT = os.path.dirname(os.path.dirname(os.path.abspath(__file__)))
sys.path.insert(0, os.path.join(ROOT, "tools"))


def run(patch, checks, seed):
    r = subprocess.run([os.path.join(ROOT, "tools", "mutant_run.py"), patch, checks, "--seed", str(seed)], capture_output=True, text=True)
    caught = [l.split(":")[0].split()[-1] for l in r.stdout.splitlines() if "exit=1" in l]
    broken = [l for l in r.stdout.splitlines() if "exit=2" in l or "cannot apply" in l]
    return caught, broken


def main():
    seed = int(sys.argv[1]) if len(sys.argv) > 1 else 1
    only = sys.argv[2:]
    rows = []
    for d in sorted(glob.glob(os.path.join(ROOT, "seeded", "*"))):
        sid = os.path.basename(d)
        if only and not any(o in sid for o in only):
            continue
        m = json.load(open(os.path.join(d, "meta.json")))
        checks = ",".join(m.get("caught_in_every_run_by") or m.get("caught_by") or [m["property"]])
        caught, broken = run(os.path.join(d, "patch.diff"), checks, seed)
        print(f"{sid} [{checks}] -> {'CAUGHT by ' + ','.join(caught) if caught else 'NOT CAUGHT'} {' '.join(broken)[:200]}", flush=True)
    import make_mutants
    for mid, path, old, new, checks in make_mutants.M:
        if only and not any(o in mid for o in only):
            continue
        caught, broken = run(os.path.join(ROOT, "mutants", mid + ".patch"), checks, seed)
        print(f"mutant {mid} [{checks}] -> {'CAUGHT by ' + ','.join(caught) if caught else 'NOT CAUGHT'} {' '.join(broken)[:200]}", flush=True)


if __name__ == "__main__":
    main()
