#!/bin/sh
# Runs the repository's suite at every 'fix:' commit of /repo (scratch worktree under /tmp, removed afterwards) and prints one
# line per commit: the pytest summary and the failing tests other than the 4 plotly ones.
WT=/tmp/vf_percommit_$$
git -C /repo worktree add -q --detach "$WT" HEAD || exit 2
for c in $(git -C /repo log --reverse --format=%h --grep='^fix:'); do
  git -C "$WT" checkout -q "$c"
  out=$(cd "$WT" && PYTHONPATH="$WT" /venv/bin/python -m pytest -q -p no:cacheprovider --timeout=900 -n 12 --dist loadfile 2>&1 | tail -12)
  summary=$(echo "$out" | tail -1)
  extra=$(echo "$out" | grep FAILED | grep -v test_plot.py | tr '\n' ' ')
  echo "$c $summary $extra"
done
git -C /repo worktree remove --force "$WT"
