"""Verification machinery for tpaviot/ProcessScheduler (property-based testing / fuzzing).

See /verif/DESIGN.md.  Everything here drives the *real* package imported from VF_REPO.
"""
