"""The only file that reads non-public attributes of ProcessScheduler objects (trusted base).

Documented to users: task._start/_end/_duration/_scheduled.  Internal, read-only here:
worker._busy_intervals, select._selection_dict, constraint._applied, buffer._buffer_levels,
buffer._level_changes_time, indicator._indicator_variable, problem._horizon, solver._solver.
A missing attribute raises HarnessError (exit status 2), never a VIOLATION.
"""
import z3

from .env import HarnessError


def _get(obj, attr):
    try:
        return getattr(obj, attr)
    except AttributeError:
        raise HarnessError(f"adapter: {type(obj).__name__} has no attribute {attr}")


def z3solver(h):
    s = _get(h.solver, "_solver")
    if s is None:
        raise HarnessError("adapter: solver not initialised")
    return s


def horizon_var(h):
    return _get(h.problem, "_horizon")


def is_bool_var(x):
    return isinstance(x, z3.BoolRef)


def task_vars(h, name):
    t = h.tasks[name]
    d = {"start": _get(t, "_start"), "end": _get(t, "_end")}
    if h_task_kind(h, name) == "var":
        d["duration"] = _get(t, "_duration")
    sch = _get(t, "_scheduled")
    if is_bool_var(sch):
        d["scheduled"] = sch
    return d


def h_task_kind(h, name):
    for t in h.spec["tasks"]:
        if t["name"] == name:
            return t["kind"]
    raise HarnessError(f"unknown task {name}")


def busy_vars(h, ai):
    """{physical worker name: (start var, end var)} for assignment number ai."""
    a = h.assign[ai]
    task = h.tasks[a["task"]]
    out = {}
    for w in a["workers"]:
        bi = _get(w, "_busy_intervals")
        if task not in bi:
            if hasattr(w, "_cumulative_workers"):
                continue  # a cumulative worker listed in a selection is busy through its elementary workers
            raise HarnessError(f"adapter: no busy interval for {w.name}/{task.name}")
        out[w.name] = bi[task]
    return out


def sel_vars(h, ai):
    a = h.assign[ai]
    if a["select_obj"] is None:
        return None
    sd = _get(a["select_obj"], "_selection_dict")
    return {w.name: sd[w] for w in a["workers"]}


def decision_vars(h):
    """[(key tuple, z3 var)] for everything a schedule is made of."""
    out = []
    for name in h.tasks:
        for k, v in task_vars(h, name).items():
            out.append((("task", name, k), v))
    for ai, a in enumerate(h.assign):
        sv = sel_vars(h, ai)
        if sv is not None:
            for wn, v in sv.items():
                out.append((("sel", ai, wn), v))
        if a.get("dynamic"):
            for wn, (bs, be) in busy_vars(h, ai).items():
                out.append((("busy", ai, wn, "start"), bs))
                out.append((("busy", ai, wn, "end"), be))
    if h.spec.get("horizon") is None:
        out.append((("horizon",), horizon_var(h)))
    return out


def _ival(model, v):
    r = model.eval(v, model_completion=True)
    try:
        return r.as_long()
    except AttributeError:
        raise HarnessError(f"adapter: non-integer model value {r} for {v}")


def _bval(model, v):
    if isinstance(v, bool):
        return v
    r = model.eval(v, model_completion=True)
    if z3.is_true(r):
        return True
    if z3.is_false(r):
        return False
    raise HarnessError(f"adapter: non-boolean model value {r} for {v}")


def read_schedule(h, model, extras=True):
    """Raw model values -> plain schedule record (DESIGN.md section 2.3)."""
    sched = {"tasks": {}, "assign": []}
    if h.spec.get("horizon") is not None:
        sched["horizon"] = h.spec["horizon"]
        sched["horizon_var"] = _ival(model, horizon_var(h))
    else:
        sched["horizon"] = _ival(model, horizon_var(h))
        sched["horizon_var"] = sched["horizon"]
    for name in h.tasks:
        tv = task_vars(h, name)
        rec = {"start": _ival(model, tv["start"]), "end": _ival(model, tv["end"])}
        rec["duration"] = _ival(model, tv["duration"]) if "duration" in tv else None
        rec["scheduled"] = _bval(model, tv["scheduled"]) if "scheduled" in tv else True
        sched["tasks"][name] = rec
    for ai, a in enumerate(h.assign):
        rec = {"busy": {}, "chosen": None}
        for wn, (bs, be) in busy_vars(h, ai).items():
            rec["busy"][wn] = [_ival(model, bs), _ival(model, be)]
        sv = sel_vars(h, ai)
        if sv is not None:
            rec["chosen"] = {wn: _bval(model, v) for wn, v in sv.items()}
        sched["assign"].append(rec)
    if extras:
        sched["applied"] = {}
        for cname, c in h.constraints.items():
            ap = _get(c, "_applied")
            sched["applied"][cname] = _bval(model, ap)
        sched["indicators"] = {}
        for iid, ind in h.indicators.items():
            sched["indicators"][iid] = _ival(model, _get(ind, "_indicator_variable"))
        sched["buffers"] = {}
        for bname, b in h.buffers.items():
            sched["buffers"][bname] = {
                "levels": [_ival(model, v) for v in _get(b, "_buffer_levels")],
                "times": [_ival(model, v) for v in _get(b, "_level_changes_time")],
            }
    return sched


def pins_for_schedule(h, sched, pin_horizon=False):
    """z3 equalities pinning every decision variable to the values of ``sched``."""
    pins = []
    for name, rec in sched["tasks"].items():
        tv = task_vars(h, name)
        if "scheduled" in tv:
            pins.append(tv["scheduled"] == bool(rec["scheduled"]))
        if not rec["scheduled"]:
            if "scheduled" not in tv:
                raise HarnessError(f"cannot pin mandatory task {name} as unscheduled")
            continue  # where an unscheduled task is parked is the encoder's business
        if rec.get("start") is not None:
            pins.append(tv["start"] == rec["start"])
        if rec.get("end") is not None:
            pins.append(tv["end"] == rec["end"])
        if "duration" in tv and rec.get("duration") is not None:
            pins.append(tv["duration"] == rec["duration"])
    for ai, a in enumerate(h.assign):
        srec = sched["assign"][ai]
        if not sched["tasks"][a["task"]]["scheduled"]:
            continue  # selections / spans of an unscheduled task are the encoder's business
        sv = sel_vars(h, ai)
        if sv is not None and srec.get("chosen") is not None and a["kind"] == "select":
            for wn, v in sv.items():
                pins.append(v == bool(srec["chosen"][wn]))
        if a.get("dynamic") and srec.get("busy"):
            for wn, (bs, be) in busy_vars(h, ai).items():
                if wn in srec["busy"]:
                    pins.append(bs == srec["busy"][wn][0])
                    pins.append(be == srec["busy"][wn][1])
    if pin_horizon and h.spec.get("horizon") is None:
        pins.append(horizon_var(h) == sched["horizon"])
    return pins
