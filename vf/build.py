"""Replay a JSON problem spec against the real public API (DESIGN.md section 2.2).

``build(spec)`` returns a Handle mapping every spec element to the live object.  Only the
public constructors / methods are used here; non-public reads live in adapter.py.
"""
from datetime import datetime, timedelta

import z3

from . import env
from .env import ps

CMP = {
    "<=": lambda a, b: a <= b,
    "<": lambda a, b: a < b,
    "==": lambda a, b: a == b,
    "!=": lambda a, b: a != b,
    ">=": lambda a, b: a >= b,
    ">": lambda a, b: a > b,
}


class BuildRejected(Exception):
    """The library refused a spec element at creation (judged by the caller)."""

    def __init__(self, stage, element, exc):
        super().__init__(f"{stage}: {element}: {type(exc).__name__}: {exc}")
        self.stage = stage
        self.element = element
        self.exc = exc


class Handle:
    def __init__(self, spec):
        self.spec = spec
        self.problem = None
        self.tasks = {}
        self.workers = {}
        self.cumul = {}
        self.selects = {}
        self.buffers = {}
        self.constraints = {}
        self.indicators = {}
        self.objectives = {}
        # list of dicts: {task, res, kind: worker|cumulative|select, dynamic, delay_in, early_out,
        #                 select_obj (for select / cumulative), workers: [physical worker objects]}
        self.assign = []
        self.solver = None


def function_from_spec(c):
    if c is None:
        return None
    if c["t"] == "const":
        return ps.ConstantFunction(value=c["v"])
    if c["t"] == "lin":
        return ps.LinearFunction(slope=c["a"], intercept=c["b"])
    if c["t"] == "poly":
        return ps.PolynomialFunction(coefficients=list(c["c"]))
    raise env.HarnessError(f"unknown cost spec {c}")


def expr(ast, h):
    """tiny expression AST -> z3 term over the documented task variables."""
    op = ast["op"]
    if op == "const":
        return ast["v"]
    if op == "bool":
        return z3.BoolVal(ast["v"])
    if op == "var":
        t = h.tasks[ast["task"]]
        a = ast["attr"]
        if a == "start":
            return t._start
        if a == "end":
            return t._end
        if a == "duration":
            return t._duration
        if a == "scheduled":
            return t._scheduled
        raise env.HarnessError(f"bad attr {a}")
    if op == "horizon":
        return h.problem._horizon
    if op == "+":
        return expr(ast["a"], h) + expr(ast["b"], h)
    if op == "-":
        return expr(ast["a"], h) - expr(ast["b"], h)
    if op == "*":
        return expr(ast["a"], h) * expr(ast["b"], h)
    if op in CMP:
        return CMP[op](expr(ast["a"], h), expr(ast["b"], h))
    if op == "and":
        return z3.And([expr(x, h) for x in ast["args"]])
    if op == "or":
        return z3.Or([expr(x, h) for x in ast["args"]])
    if op == "not":
        return z3.Not(expr(ast["a"], h))
    raise env.HarnessError(f"bad expression op {op}")


def _res(h, name):
    if name in h.workers:
        return h.workers[name]
    if name in h.cumul:
        return h.cumul[name]
    if name in h.selects:
        return h.selects[name]
    raise env.HarnessError(f"unknown resource {name}")


def _operand(node, h):
    """FOL operand: nested constraint spec (has 'type') or raw expression (has 'op')."""
    if "ref" in node:
        return h.constraints[node["ref"]]  # the same constraint object used as an operand once more
    if "type" in node:
        return make_constraint(node, h)
    return expr(node, h)


def _cond(ast, h):
    """condition of Implies / IfThenElse: a z3 term, or a plain python bool (the field is typed Union[BoolRef, bool])"""
    if ast.get("op") == "bool" and ast.get("py"):
        return bool(ast["v"])
    return expr(ast, h)


def _ivs(lst):
    return [tuple(x) for x in lst]


def make_constraint(c, h):
    t = c["type"]
    kw = {}
    if c.get("name") is not None:
        kw["name"] = c["name"]
    if c.get("optional"):
        kw["optional"] = True
    T = h.tasks
    if t in ("TaskStartAt", "TaskEndAt"):
        obj = getattr(ps, t)(task=T[c["task"]], value=c["value"], **kw)
    elif t in ("TaskStartAfter", "TaskEndBefore"):
        obj = getattr(ps, t)(task=T[c["task"]], value=c["value"], kind=c["kind"], **kw)
    elif t == "TaskPrecedence":
        obj = ps.TaskPrecedence(
            task_before=T[c["before"]], task_after=T[c["after"]], offset=c["offset"], kind=c["kind"], **kw
        )
    elif t == "GroupPrecedence":
        # a TaskPrecedence whose operands are task groups (declared earlier) and / or tasks
        obj = ps.TaskPrecedence(
            task_before=h.constraints[c["gbefore"]] if c.get("gbefore") else T[c["before"]],
            task_after=h.constraints[c["gafter"]] if c.get("gafter") else T[c["after"]],
            offset=c["offset"], kind=c["kind"], **kw
        )
    elif t in ("TasksStartSynced", "TasksEndSynced", "TasksDontOverlap"):
        obj = getattr(ps, t)(task_1=T[c["t1"]], task_2=T[c["t2"]], **kw)
    elif t == "TasksContiguous":
        obj = ps.TasksContiguous(list_of_tasks=[T[x] for x in c["tasks"]], **kw)
    elif t in ("UnorderedTaskGroup", "OrderedTaskGroup"):
        a = dict(list_of_tasks=[T[x] for x in c["tasks"]])
        if c.get("interval") is not None:
            a["time_interval"] = tuple(c["interval"])
        if c.get("length") is not None:
            a["time_interval_length"] = c["length"]
        if t == "OrderedTaskGroup":
            a["kind"] = c["kind"]
        obj = getattr(ps, t)(**a, **kw)
    elif t == "ScheduleNTasksInTimeIntervals":
        obj = ps.ScheduleNTasksInTimeIntervals(
            list_of_tasks=[T[x] for x in c["tasks"]],
            nb_tasks_to_schedule=c["n"],
            list_of_time_intervals=_ivs(c["intervals"]),
            kind=c["kind"],
            **kw,
        )
    elif t == "OptionalTaskForceSchedule":
        obj = ps.OptionalTaskForceSchedule(task=T[c["task"]], to_be_scheduled=c["flag"], **kw)
    elif t == "OptionalTaskConditionSchedule":
        obj = ps.OptionalTaskConditionSchedule(task=T[c["task"]], condition=expr(c["cond"], h), **kw)
    elif t == "OptionalTasksDependency":
        obj = ps.OptionalTasksDependency(task_1=T[c["t1"]], task_2=T[c["t2"]], **kw)
    elif t == "ForceScheduleNOptionalTasks":
        obj = ps.ForceScheduleNOptionalTasks(
            list_of_optional_tasks=[T[x] for x in c["tasks"]], nb_tasks_to_schedule=c["n"], kind=c["kind"], **kw
        )
    elif t in ("TaskUnloadBuffer", "TaskLoadBuffer"):
        obj = getattr(ps, t)(task=T[c["task"]], buffer=h.buffers[c["buffer"]], quantity=c["qty"], **kw)
    elif t == "WorkLoad":
        obj = ps.WorkLoad(
            resource=_res(h, c["res"]),
            dict_time_intervals_and_bound={(lo, hi): b for lo, hi, b in c["intervals"]},
            kind=c["kind"],
            **kw,
        )
    elif t in ("ResourceUnavailable", "ResourceInterrupted"):
        obj = getattr(ps, t)(resource=_res(h, c["res"]), list_of_time_intervals=_ivs(c["intervals"]), **kw)
    elif t in ("ResourcePeriodicallyUnavailable", "ResourcePeriodicallyInterrupted"):
        a = dict(
            resource=_res(h, c["res"]),
            list_of_time_intervals=_ivs(c["intervals"]),
            period=c["period"],
            start=c.get("start", 0),
            offset=c.get("offset", 0),
        )
        if c.get("end") is not None:
            a["end"] = c["end"]
        obj = getattr(ps, t)(**a, **kw)
    elif t == "ResourceNonDelay":
        obj = ps.ResourceNonDelay(resource=_res(h, c["res"]), **kw)
    elif t == "ResourceTasksDistance":
        a = dict(resource=_res(h, c["res"]), distance=c["distance"], mode=c["mode"])
        if c.get("intervals") is not None:
            a["list_of_time_intervals"] = _ivs(c["intervals"])
        obj = ps.ResourceTasksDistance(**a, **kw)
    elif t in ("SameWorkers", "DistinctWorkers"):
        obj = getattr(ps, t)(select_workers_1=h.selects[c["s1"]], select_workers_2=h.selects[c["s2"]], **kw)
    elif t == "ConstraintFromExpression":
        obj = ps.ConstraintFromExpression(expression=expr(c["expr"], h), **kw)
    elif t == "Not":
        obj = ps.Not(constraint=_operand(c["c"], h), **kw)
    elif t in ("Or", "And"):
        obj = getattr(ps, t)(list_of_constraints=[_operand(x, h) for x in c["cs"]], **kw)
    elif t == "Xor":
        obj = ps.Xor(constraint_1=_operand(c["c1"], h), constraint_2=_operand(c["c2"], h), **kw)
    elif t == "Implies":
        obj = ps.Implies(
            condition=_cond(c["cond"], h), list_of_constraints=[_operand(x, h) for x in c["cs"]], **kw
        )
    elif t == "IfThenElse":
        obj = ps.IfThenElse(
            condition=_cond(c["cond"], h),
            then_list_of_constraints=[_operand(x, h) for x in c["then"]],
            else_list_of_constraints=[_operand(x, h) for x in c["else"]],
            **kw,
        )
    elif t == "ForceApplyNOptionalConstraints":
        obj = ps.ForceApplyNOptionalConstraints(
            list_of_optional_constraints=[h.constraints[x] for x in c["cs"]],
            nb_constraints_to_apply=c["n"],
            kind=c["kind"],
            **kw,
        )
    elif t == "IndicatorTarget":
        obj = ps.IndicatorTarget(indicator=h.indicators[c["ind"]], value=c["value"], **kw)
    elif t == "IndicatorBounds":
        a = {}
        if c.get("lo") is not None:
            a["lower_bound"] = c["lo"]
        if c.get("hi") is not None:
            a["upper_bound"] = c["hi"]
        obj = ps.IndicatorBounds(indicator=h.indicators[c["ind"]], **a, **kw)
    else:
        raise env.HarnessError(f"unknown constraint type {t}")
    if c.get("name") is not None:
        h.constraints[c["name"]] = obj
    return obj


def make_indicator(i, h):
    t = i["type"]
    if t in ("Tardiness", "Earliness", "NumberOfTardyTasks", "MaximumLateness"):
        a = {}
        if i.get("tasks") is not None:
            a["list_of_tasks"] = [h.tasks[x] for x in i["tasks"]]
        obj = getattr(ps, "Indicator" + t)(**a)
    elif t in ("ResourceUtilization", "ResourceIdle", "NumberTasksAssigned"):
        obj = getattr(ps, "Indicator" + t)(resource=_res(h, i["res"]))
    elif t == "ResourceCost":
        obj = ps.IndicatorResourceCost(list_of_resources=[_res(h, r) for r in i["ress"]])
    elif t in ("MaxBufferLevel", "MinBufferLevel"):
        obj = getattr(ps, "Indicator" + t)(buffer=h.buffers[i["buffer"]])
    elif t == "FromMathExpression":
        a = dict(name=i["name"], expression=expr(i["expr"], h))
        if i.get("bounds") is not None:
            a["bounds"] = tuple(i["bounds"])
        obj = ps.IndicatorFromMathExpression(**a)
    else:
        raise env.HarnessError(f"unknown indicator type {t}")
    h.indicators[i["id"]] = obj
    return obj


def make_objective(o, h):
    t = o["type"]
    if t == "MinimizeMakespan":
        obj = ps.ObjectiveMinimizeMakespan()
    elif t == "MaximizeResourceUtilization":
        obj = ps.ObjectiveMaximizeResourceUtilization(resource=_res(h, o["res"]))
    elif t == "MinimizeResourceCost":
        obj = ps.ObjectiveMinimizeResourceCost(list_of_resources=[_res(h, r) for r in o["ress"]])
    elif t == "Priorities":
        obj = ps.ObjectivePriorities()
    elif t == "TasksStartEarliest":
        obj = ps.ObjectiveTasksStartEarliest()
    elif t in ("TasksStartLatest", "MinimizeGreatestStartTime", "MinimizeFlowtime"):
        a = {}
        if o.get("tasks") is not None:
            a["list_of_tasks"] = [h.tasks[x] for x in o["tasks"]]
        obj = getattr(ps, "Objective" + t)(**a)
    elif t == "MinimizeFlowtimeSingleResource":
        a = dict(resource=_res(h, o["res"]))
        if o.get("interval") is not None:
            a["time_interval"] = tuple(o["interval"])
        obj = ps.ObjectiveMinimizeFlowtimeSingleResource(**a)
    elif t in ("MaximizeMaxBufferLevel", "MinimizeMaxBufferLevel"):
        obj = getattr(ps, "Objective" + t)(buffer=h.buffers[o["buffer"]])
    elif t == "MinimizeIndicator":
        obj = ps.ObjectiveMinimizeIndicator(target=h.indicators[o["ind"]], weight=o.get("weight", 1))
    elif t == "MaximizeIndicator":
        obj = ps.ObjectiveMaximizeIndicator(target=h.indicators[o["ind"]], weight=o.get("weight", 1))
    else:
        raise env.HarnessError(f"unknown objective type {t}")
    if o.get("weight") is not None and t not in ("MinimizeIndicator", "MaximizeIndicator"):
        obj.weight = o["weight"]
    h.objectives[o.get("id", t)] = obj
    return obj


def make_task(t):
    kw = dict(name=t["name"])
    for k_spec, k_api in (
        ("optional", "optional"),
        ("release", "release_date"),
        ("due", "due_date"),
        ("work_amount", "work_amount"),
        ("priority", "priority"),
    ):
        if t.get(k_spec) is not None:
            kw[k_api] = t[k_spec]
    if t.get("due") is not None:
        kw["due_date_is_deadline"] = bool(t.get("deadline", True))
    if t["kind"] == "fixed":
        return ps.FixedDurationTask(duration=t["duration"], **kw)
    if t["kind"] == "zero":
        return ps.ZeroDurationTask(**kw)
    if t["kind"] == "var":
        for k_spec, k_api in (("min_duration", "min_duration"), ("max_duration", "max_duration"), ("allowed", "allowed_durations")):
            if t.get(k_spec) is not None:
                kw[k_api] = t[k_spec]
        return ps.VariableDurationTask(**kw)
    raise env.HarnessError(f"bad task kind {t['kind']}")


def _stage(stage, element, fn):
    try:
        return fn()
    except env.HarnessError:
        raise
    except KeyError as exc:
        # a KeyError from our own tables is a harness bug, not a library verdict
        raise
    except Exception as exc:
        raise BuildRejected(stage, element, exc)


def build(spec, case_seed=0, solver_kwargs=None, make_solver=True):
    """Build the problem described by spec through the public API, in the documented order."""
    env.pin_case(case_seed)
    h = Handle(spec)
    pk = dict(name=spec.get("name", "P"))
    if spec.get("horizon") is not None:
        pk["horizon"] = spec["horizon"]
    if spec.get("delta_time_s") is not None:
        pk["delta_time"] = timedelta(seconds=spec["delta_time_s"])
    if spec.get("start_time") is not None:
        pk["start_time"] = datetime.fromisoformat(spec["start_time"])
    if spec.get("end_time") is not None:
        pk["end_time"] = datetime.fromisoformat(spec["end_time"])
    h.problem = _stage("problem", pk, lambda: ps.SchedulingProblem(**pk))

    for t in spec.get("tasks", []):
        h.tasks[t["name"]] = _stage("task", t, lambda: make_task(t))
    for w in spec.get("workers", []):
        def mk(w=w):
            kw = dict(name=w["name"])
            if w.get("productivity") is not None:
                kw["productivity"] = w["productivity"]
            if w.get("cost") is not None:
                kw["cost"] = function_from_spec(w["cost"])
            return ps.Worker(**kw)
        h.workers[w["name"]] = _stage("worker", w, mk)
    for c in spec.get("cumulative", []):
        def mk(c=c):
            kw = dict(name=c["name"], size=c["size"])
            if c.get("productivity") is not None:
                kw["productivity"] = c["productivity"]
            if c.get("cost") is not None:
                kw["cost"] = function_from_spec(c["cost"])
            return ps.CumulativeWorker(**kw)
        h.cumul[c["name"]] = _stage("cumulative", c, mk)
    for s in spec.get("selects", []):
        def mk(s=s):
            return ps.SelectWorkers(
                name=s["name"],
                list_of_workers=[_res(h, x) for x in s["workers"]],
                nb_workers_to_select=s["n"],
                kind=s["kind"],
            )
        h.selects[s["name"]] = _stage("select", s, mk)
    for a in spec.get("assign", []):
        def mk(a=a):
            task = h.tasks[a["task"]]
            res = _res(h, a["res"])
            before = set(h.problem.select_workers)
            kw = {}
            if a.get("dynamic"):
                kw["dynamic"] = True
            if a.get("delay_in"):
                kw["delay_in"] = a["delay_in"]
            if a.get("early_out"):
                kw["early_out"] = a["early_out"]
            task.add_required_resource(res, **kw)
            rec = dict(a)
            if a["res"] in h.workers:
                rec["kind"] = "worker"
                rec["select_obj"] = None
                rec["workers"] = [res]
            elif a["res"] in h.cumul:
                rec["kind"] = "cumulative"
                new = [n for n in h.problem.select_workers if n not in before]
                if len(new) != 1:
                    raise env.HarnessError("cannot identify the selection created for a cumulative worker")
                rec["select_obj"] = h.problem.select_workers[new[0]]
                rec["workers"] = list(rec["select_obj"].list_of_workers)
            else:
                rec["kind"] = "select"
                rec["select_obj"] = res
                rec["workers"] = list(res.list_of_workers)
            return rec
        h.assign.append(_stage("assign", a, mk))
        # resource constraints declared between two assignments (they bind the assignments made so far)
        for c in spec.get("constraints", []):
            if c.get("after_assign") == len(h.assign):
                _stage("constraint", c, lambda c=c: make_constraint(c, h))
    for b in spec.get("buffers", []):
        def mk(b=b):
            cls = ps.ConcurrentBuffer if b.get("concurrent") else ps.NonConcurrentBuffer
            kw = dict(name=b["name"])
            for k_spec, k_api in (("initial", "initial_level"), ("final", "final_level"), ("lower", "lower_bound"), ("upper", "upper_bound")):
                if b.get(k_spec) is not None:
                    kw[k_api] = b[k_spec]
            return cls(**kw)
        h.buffers[b["name"]] = _stage("buffer", b, mk)
    # constraints that do not depend on indicators
    for c in spec.get("constraints", []):
        if c["type"] in ("IndicatorTarget", "IndicatorBounds") or c.get("after_assign") is not None:
            continue
        _stage("constraint", c, lambda c=c: make_constraint(c, h))
    for i in spec.get("indicators", []):
        _stage("indicator", i, lambda i=i: make_indicator(i, h))
    for c in spec.get("constraints", []):
        if c["type"] in ("IndicatorTarget", "IndicatorBounds"):
            _stage("constraint", c, lambda c=c: make_constraint(c, h))
    for o in spec.get("objectives", []):
        _stage("objective", o, lambda o=o: make_objective(o, h))

    if make_solver:
        kw = dict(spec.get("solver") or {})
        if solver_kwargs:
            kw.update(solver_kwargs)
        kw = {k: v for k, v in kw.items() if v is not None}
        h.solver = _stage("solver", kw, lambda: ps.SchedulingSolver(problem=h.problem, **kw))
    return h
