"""Reference-side candidate schedules (probe P4) and the completeness engine (C05, C06, C09)."""
import copy
import itertools

from . import engine, known, probe, ref, build as B
from .runner import digest


def horizon_of(spec):
    if spec.get("horizon") is not None:
        return spec["horizon"]
    tot = 0
    for t in spec["tasks"]:
        if t["kind"] == "fixed":
            tot += t["duration"]
        elif t["kind"] == "var":
            tot += max(t.get("min_duration") or 0, 1)
    return min(8, tot + 2)


def durations_of(t, H):
    if t["kind"] == "fixed":
        return [t["duration"]]
    if t["kind"] == "zero":
        return [0]
    mn = t.get("min_duration") or 0
    mx = t.get("max_duration")
    hi = H if mx is None else min(mx, H)
    ds = [d for d in range(mn, hi + 1)]
    if t.get("allowed") is not None:
        ds = [d for d in ds if d in t["allowed"]]
    return ds


def placements(t, H):
    """task-local placements (scheduled, start, end, duration) already filtered by T1-T4"""
    out = []
    if t["optional"]:
        out.append((False, None, None, None))
    for d in durations_of(t, H):
        for s in range(0, H - d + 1):
            e = s + d
            if t.get("release") is not None and s < t["release"]:
                continue
            if t.get("due") is not None and t.get("deadline", True) and e > t["due"]:
                continue
            out.append((True, s, e, d if t["kind"] == "var" else None))
    return out


def selection_choices(sel):
    ws = sel["workers"]
    out = []
    for k in range(0, len(ws) + 1):
        ok = {"exact": k == sel["n"], "min": k >= sel["n"], "max": k <= sel["n"]}[sel["kind"]]
        if not ok:
            continue
        for comb in itertools.combinations(ws, k):
            out.append({w: (w in comb) for w in ws})
    return out


def assignment_choices(spec, a, place):
    """choices for one assignment given its task's placement"""
    sel = {s["name"]: s for s in spec["selects"]}
    sch, s, e, _ = place
    if not sch:
        return [{"chosen": None, "busy": {}}]
    if a["res"] in sel:
        return [{"chosen": ch, "busy": {}} for ch in selection_choices(sel[a["res"]])]
    if a.get("dynamic"):
        return [{"chosen": None, "busy": {a["res"]: [bs, be]}} for bs in range(s, e + 1) for be in range(bs, e + 1)]
    return [{"chosen": None, "busy": {}}]


def space_size(spec, H):
    n = 1
    for t in spec["tasks"]:
        n *= max(1, len(placements(t, H)))
    sel = {s["name"]: s for s in spec["selects"]}
    for a in spec["assign"]:
        if a["res"] in sel:
            n *= max(1, len(selection_choices(sel[a["res"]])))
        elif a.get("dynamic"):
            n *= 3
    return n


def make_candidate(spec, H, places, assigns):
    cand = {"horizon": H, "tasks": {}, "assign": assigns}
    for t, (sch, s, e, d) in zip(spec["tasks"], places):
        cand["tasks"][t["name"]] = {"scheduled": sch, "start": s, "end": e, "duration": d}
    if spec.get("horizon") is None:
        ends = [p[2] for p in places if p[0]]
        cand["horizon"] = max(ends) if ends else 0
        cand["horizon_var"] = cand["horizon"]
    return cand


def all_candidates(spec, cap=4000):
    """complete enumeration of the candidate box (task-local rules pre-filtered); yields candidates.
    returns (generator, exhaustive: bool)"""
    H = horizon_of(spec)
    per_task = [placements(t, H) for t in spec["tasks"]]
    if any(not p for p in per_task):
        return iter(()), True
    if space_size(spec, H) > 4 * cap:
        return iter(()), False  # clearly too large: the caller samples instead

    out = []
    for places in itertools.product(*per_task):
        pmap = {t["name"]: p for t, p in zip(spec["tasks"], places)}
        per_assign = [assignment_choices(spec, a, pmap[a["task"]]) for a in spec["assign"]]
        for assigns in itertools.product(*per_assign):
            out.append(make_candidate(spec, H, places, [copy.deepcopy(x) for x in assigns]))
            if len(out) > cap:
                return iter(()), False  # not enumerable within the cap: never reported as exhaustive
    return iter(out), True


def decode_candidate(spec, ints):
    """construction-based random candidate: ints is a list of non-negative integers"""
    H = horizon_of(spec)
    it = iter(ints + [0] * 64)
    places = []
    for t in spec["tasks"]:
        ps = placements(t, H)
        if not ps:
            return None
        places.append(ps[next(it) % len(ps)])
    pmap = {t["name"]: p for t, p in zip(spec["tasks"], places)}
    assigns = []
    for a in spec["assign"]:
        ch = assignment_choices(spec, a, pmap[a["task"]])
        assigns.append(copy.deepcopy(ch[next(it) % len(ch)]))
    return make_candidate(spec, H, places, assigns)


def has_structure(spec):
    """the problem has at least one user constraint or a shared resource"""
    if any(c["type"] not in ("TaskLoadBuffer", "TaskUnloadBuffer") for c in spec["constraints"]) or spec["buffers"]:
        return True
    cnt = {}
    for r, n in __import__("vf.spec", fromlist=["x"]).assigned_resources(spec).items():
        if n >= 2:
            return True
    return False


def completeness_case(ctx, case, check_name, families_required=None, enum_cap=1500, n_random=10, sig_extra=None, on_candidate=None):
    """valid (strict) => admitted.  Also: a candidate whose only defect is `must_reject` rules
    must be rejected (used by C09 for non-concurrent ties)."""
    spec, seed = case["spec"], case["seed"]
    try:
        sess = probe.Session(spec, seed)
    except B.BuildRejected as exc:
        ctx.event(f"build_rejected:{exc.stage}:{type(exc.exc).__name__}")
        return None
    for cl in engine.classes_of(spec):
        ctx.event("has:" + cl)
    cands = []
    seen = set()

    def push(c, origin):
        k = digest(c)
        if k not in seen:
            seen.add(k)
            cands.append((origin, c))

    # (iii) complete box when small
    gen, exhaustive = all_candidates(spec, cap=enum_cap)
    if exhaustive:
        for c in gen:
            push(c, "box")
        ctx.event("candidate_box_exhaustive")
    else:
        ctx.event("candidate_box_sampled")
        # (i) neighbours of admitted schedules
        ex = engine.Explorer(ctx, spec, seed)
        ex.sess = sess
        for origin, sched, m in ex.schedules(case.get("pins", [])[:3], enum_cap=0, extremal=1):
            push(engine.to_candidate(spec, sched), "admitted")
            for nb in engine.neighbours(spec, sched):
                push(nb, "neighbour")
        # (ii) construction-based random candidates
        for ints in case.get("cand_ints", [])[:n_random]:
            c = decode_candidate(spec, ints)
            if c is not None:
                push(c, "random")
    n_valid = n_invalid = 0
    valid_list = []
    for origin, c in cands:
        try:
            vd = ref.judge(spec, c, from_model=False)
        except (TypeError, KeyError):
            # candidates from admitted schedules may carry None times for unscheduled tasks
            continue
        st = vd.status()
        ctx.event("candidate_" + st)
        if on_candidate is not None:
            on_candidate(ctx, sess, spec, c, vd, origin)
        if st == "INVALID":
            n_invalid += 1
            continue
        if st != "VALID":
            continue
        n_valid += 1
        ctx.evaluation()
        res, back, _ = sess.admitted(c)
        ctx.event("valid_candidate_" + res)
        if res == "unknown":
            ctx.inconclusive += 1
            continue
        if res == "unsat":
            rec = {
                "check": check_name,
                "rule": "valid_schedule_rejected",
                "spec": spec,
                "seed": seed,
                "probe": {"kind": "candidate", "origin": origin, "schedule": c},
                "observed": "reference-VALID schedule is not admitted by the constraint system",
                "signature": {"rule": "valid_schedule_rejected", "classes": engine.classes_of(spec), **known.features(spec, c), **(sig_extra(spec, c) if sig_extra else {})},
            }
            ctx.violation(rec)
            continue
        valid_list.append(c)
    if n_valid and n_invalid and has_structure(spec):
        for c in valid_list[:40]:
            ctx.nontrivial_case({"spec": spec, "cand": c})
        ctx.event("nontrivial_specs")
        if valid_list:
            ctx.sample({"spec": spec, "valid_candidate": valid_list[0], "n_valid": n_valid, "n_invalid": n_invalid}, cap=3)
    return {"sess": sess, "n_valid": n_valid, "exhaustive": exhaustive, "valid": valid_list}


def replay_completeness(record):
    spec, seed = record["spec"], record.get("seed", 0)
    c = record["probe"]["schedule"]
    vd = ref.judge(spec, c, from_model=False)
    if vd.status() != "VALID":
        return False, f"candidate is not reference-VALID any more ({vd.status()})"
    sess = probe.Session(spec, seed)
    res, _, _ = sess.admitted(c)
    if res == "unsat":
        return True, "reference-VALID schedule rejected by the constraint system"
    return False, f"candidate {res}"
