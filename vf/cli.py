"""Command line:  ./check <ID> [quick|thorough] [--collect]   |   ./check <ID> --replay <path>"""
import os
import sys
import traceback


def main(argv):
    if len(argv) < 1:
        print("usage: check <ID> quick|thorough [--collect] | check <ID> --replay <path>")
        return 2
    prop = argv[0].upper()
    args = argv[1:]
    try:
        from . import runner

        if "--replay" in args:
            path = args[args.index("--replay") + 1]
            bad, info = runner.replay_file(prop, path)
            if bad:
                print(f"  {info}")
                print(f"VIOLATION property={prop} replay={path}")
                return 1
            print(f"replay {path}: property held ({info})")
            return 0
        tier = os.environ.get("VERIF_TIER") or "quick"
        for a in args:
            if a in ("quick", "thorough"):
                tier = a
        seed = int(os.environ.get("VERIF_SEED", "1") or "1")
        return runner.main_check(prop, tier, seed, collect="--collect" in args)
    except SystemExit:
        raise
    except Exception as exc:
        print(f"HARNESS-ERROR {type(exc).__name__}: {exc}")
        traceback.print_exc(file=sys.stdout)
        return 2


if __name__ == "__main__":
    sys.exit(main(sys.argv[1:]))
