"""Encoder-vs-reference engine shared by the soundness checks (C01-C04, C06, C08-C10)."""
import copy

from . import adapter, build as B, known, probe, ref
from .env import HarnessError
from .runner import digest


def to_candidate(spec, sched):
    """strip what is derived: keep task times, flags, selections and dynamic spans"""
    out = {"horizon": sched["horizon"], "tasks": copy.deepcopy(sched["tasks"]), "assign": []}
    for rec in out["tasks"].values():
        if not rec["scheduled"]:
            # where an unscheduled task is parked is the encoder's business, not part of a schedule
            rec["start"] = rec["end"] = rec["duration"] = None
    if "horizon_var" in sched:
        out["horizon_var"] = sched["horizon_var"]
    for ai, a in enumerate(spec.get("assign", [])):
        rec = sched["assign"][ai]
        new = {"chosen": copy.deepcopy(rec.get("chosen")), "busy": {}}
        if a.get("dynamic") and rec.get("busy"):
            new["busy"] = copy.deepcopy(rec["busy"])
        out["assign"].append(new)
    return out


def neighbours(spec, sched):
    """±1 / flip neighbours of a schedule, in candidate form"""
    base = to_candidate(spec, sched)
    tspec = {t["name"]: t for t in spec["tasks"]}
    out = []
    for n, rec in base["tasks"].items():
        if not rec["scheduled"]:
            continue
        for d in (-1, 1):
            c = copy.deepcopy(base)
            c["tasks"][n]["start"] += d
            c["tasks"][n]["end"] += d
            for ai, a in enumerate(spec["assign"]):
                if a["task"] == n and a.get("dynamic"):
                    for w, b in c["assign"][ai]["busy"].items():
                        c["assign"][ai]["busy"][w] = [b[0] + d, b[1] + d]
            out.append(c)
        if tspec[n]["kind"] == "var":
            for d in (-1, 1):
                c = copy.deepcopy(base)
                c["tasks"][n]["end"] += d
                if c["tasks"][n].get("duration") is not None:
                    c["tasks"][n]["duration"] += d
                out.append(c)
                c = copy.deepcopy(base)
                c["tasks"][n]["start"] += d
                if c["tasks"][n].get("duration") is not None:
                    c["tasks"][n]["duration"] -= d
                out.append(c)
        if tspec[n]["optional"]:
            c = copy.deepcopy(base)
            c["tasks"][n].update(scheduled=False, start=None, end=None, duration=None)
            out.append(c)
    for ai, a in enumerate(spec["assign"]):
        ch = base["assign"][ai].get("chosen")
        if ch and a["res"] in {s["name"] for s in spec["selects"]}:
            for w in ch:
                c = copy.deepcopy(base)
                c["assign"][ai]["chosen"][w] = not ch[w]
                out.append(c)
        if a.get("dynamic"):
            for w, b in base["assign"][ai]["busy"].items():
                for i in (0, 1):
                    for d in (-1, 1):
                        c = copy.deepcopy(base)
                        c["assign"][ai]["busy"][w][i] += d
                        out.append(c)
    return out


def binding(spec, sched, families):
    """is some neighbour INVALID by a rule of one of the families?"""
    for c in neighbours(spec, sched):
        try:
            vd = ref.judge(spec, c, from_model=False)
        except Exception:
            continue
        if vd.bad(families):
            return True
    return False


def sched_key(spec, sched):
    c = to_candidate(spec, sched)
    return digest({"spec": spec, "sched": c})


class Explorer:
    """Collect admitted schedules of one generated problem through probes P0..P3."""

    def __init__(self, ctx, spec, seed, solver_kwargs=None):
        self.ctx = ctx
        self.spec = spec
        self.seed = seed
        self.sess = None
        self.rejected = None
        try:
            self.sess = probe.Session(spec, seed, solver_kwargs)
        except B.BuildRejected as exc:
            self.rejected = exc
            ctx.event(f"build_rejected:{exc.stage}:{type(exc.exc).__name__}")

    def schedules(self, pin_sets=(), enum_cap=0, extremal=2):
        """yield (origin, schedule, model)"""
        ctx, sess = self.ctx, self.sess
        seen = set()
        st, sched, m = sess.check([])
        ctx.event("p1_default_" + st)
        if st == "unknown":
            ctx.inconclusive += 1
        if st != "sat":
            return
        seen.add(digest(to_candidate(self.spec, sched)))
        yield "default", sched, m
        # P1 steered
        for pins in pin_sets:
            if not sess.pins_applicable(pins):
                ctx.event("pins_not_applicable")
                continue
            st2, s2, m2 = sess.check_pins(pins)
            ctx.event("p1_steered_" + st2)
            if st2 == "unknown":
                ctx.inconclusive += 1
            if st2 == "sat":
                k = digest(to_candidate(self.spec, s2))
                if k not in seen:
                    seen.add(k)
                    yield "steered", s2, m2
        # P2 extremal: push integer variables beyond their default value
        ints = [(k, v) for k, v in sess.dvars if not adapter.is_bool_var(v)]
        for idx in range(min(extremal, len(ints))):
            k, var = ints[(self.seed + idx * 7) % len(ints)]
            for direction in (1, -1):
                cur = sched
                for _ in range(3):
                    val = _value_of(cur, k)
                    if val is None:
                        break
                    st3, s3, m3 = sess.check([var > val] if direction > 0 else [var < val])
                    ctx.event("p2_extremal_" + st3)
                    if st3 != "sat":
                        break
                    cur = s3
                    kk = digest(to_candidate(self.spec, s3))
                    if kk not in seen:
                        seen.add(kk)
                        yield "extremal", s3, m3
        # P3 enumeration
        if enum_cap:
            H = self.spec["horizon"] if self.spec.get("horizon") is not None else 8
            lst, exhausted = sess.enumerate(-3, H + 3, cap=enum_cap)
            ctx.event("p3_enumerated_exhaustive" if exhausted else "p3_enumerated_capped")
            for s4 in lst:
                kk = digest(to_candidate(self.spec, s4))
                if kk not in seen:
                    seen.add(kk)
                    yield "enumerated", s4, None


def _value_of(sched, key):
    if key[0] == "task":
        return sched["tasks"][key[1]].get(key[2])
    if key[0] == "busy":
        b = sched["assign"][key[1]]["busy"].get(key[2])
        return None if b is None else b[0 if key[3] == "start" else 1]
    if key[0] == "horizon":
        return sched.get("horizon_var")
    return None


def small(spec, max_tasks=3, max_h=5):
    return spec.get("horizon") is not None and spec["horizon"] <= max_h and len(spec["tasks"]) <= max_tasks


def summarize_bad(bad):
    return [{"family": f, "rule": r, "element": e, "detail": d} for f, r, e, _, d in bad]


def classes_of(spec):
    cl = set()
    for t in spec["tasks"]:
        cl.add("task:" + t["kind"] + (":optional" if t["optional"] else ""))
    for c in spec["constraints"]:
        cl.add("c:" + c["type"])
    for i in spec["indicators"]:
        cl.add("i:" + i["type"])
    if spec["cumulative"]:
        cl.add("res:cumulative")
    if spec["selects"]:
        cl.add("res:select")
    if spec["workers"]:
        cl.add("res:worker")
    if any(a.get("dynamic") for a in spec["assign"]):
        cl.add("assign:dynamic")
    if any(a.get("delay_in") or a.get("early_out") for a in spec["assign"]):
        cl.add("assign:delay")
    for b in spec["buffers"]:
        cl.add("buffer:" + ("concurrent" if b.get("concurrent") else "nonconcurrent"))
    if spec.get("horizon") is None:
        cl.add("no_horizon")
    return sorted(cl)


def _as_reported(sched):
    """the schedule as delivered: with the horizon reported by build_solution when the problem declares none"""
    if sched.get("reported_horizon") is not None and sched["reported_horizon"] != sched["horizon"]:
        return dict(sched, horizon=sched["reported_horizon"])
    return sched


def delivered(sess, spec, sched, model, ctx):
    """buffer profiles and indicator values as delivered by build_solution(model); falls back to the
    raw model values when there is nothing to deliver or no model."""
    rep_ind = sched.get("indicators")
    rep_buf = None
    if model is None or not (spec.get("buffers") or spec.get("indicators")):
        if sched.get("buffers"):
            rep_buf = None
        return rep_buf, rep_ind
    try:
        sol = sess.h.solver.build_solution(model)
    except Exception as exc:  # the delivery path itself is C11's subject
        if ctx is not None:
            ctx.event("build_solution_raised:" + type(exc).__name__)
        return None, rep_ind
    rep_buf = {bn: {"levels": list(b.level), "times": list(b.level_change_times)} for bn, b in sol.buffers.items()}
    if spec.get("horizon") is None and spec.get("indicators") and isinstance(getattr(sol, "horizon", None), int):
        # a problem without a declared horizon: the delivered values are judged on the delivered schedule, whose horizon
        # is the one reported with the solution
        sched["reported_horizon"] = sol.horizon
    names = {}
    for iid, obj in sess.h.indicators.items():
        names.setdefault(obj.name, []).append(iid)
    rep_ind = {}
    for nm, ids in names.items():
        if nm in sol.indicators:
            for iid in ids:  # indicators sharing a display name share the delivered value
                rep_ind[iid] = sol.indicators[nm]
    return rep_buf, rep_ind


def soundness_case(ctx, case, families, check_name, enum_cap_small=120, extra_nt=None, sig_extra=None, require_binding=True):
    """Generic soundness property: every admitted schedule is weak-valid for `families`."""
    spec, pins, seed = case["spec"], case["pins"], case["seed"]
    ex = Explorer(ctx, spec, seed)
    if ex.sess is None:
        return
    for cl in classes_of(spec):
        ctx.event("has:" + cl)
    enum_cap = enum_cap_small if small(spec) else 0
    n = 0
    for origin, sched, model in ex.schedules(pins, enum_cap=enum_cap):
        n += 1
        ctx.evaluation()
        rep_buf, rep_ind = delivered(ex.sess, spec, sched, model, ctx)
        vd = ref.judge(spec, _as_reported(sched), reported_buffers=rep_buf, reported_indicators=rep_ind)
        ctx.event("verdict_" + vd.status())
        if ctx.collect:
            for f, r, e, _, d in vd.bad():
                ctx.event(f"bad:{f}:{r}")
        bad = vd.bad(families)
        if bad:
            f0 = bad[0]
            rec = {
                "check": check_name,
                "rule": f"{f0[0]}:{f0[1]}",
                "spec": spec,
                "seed": seed,
                "probe": {"kind": "admitted_schedule", "origin": origin, "schedule": to_candidate(spec, sched)},
                "observed": summarize_bad(bad),
                "signature": {"rule": f"{f0[0]}:{f0[1]}", "classes": classes_of(spec), **known.features(spec, sched), **(sig_extra(spec, sched, f0) if sig_extra else {})},
            }
            ctx.violation(rec)
            continue
        nt = origin != "default" and (not require_binding or binding(spec, sched, families))
        if nt and (extra_nt is None or extra_nt(spec, sched)):
            ctx.nontrivial_case({"spec": spec, "sched": to_candidate(spec, sched)})
            ctx.event("nontrivial")
            if origin != "enumerated":
                ctx.sample({"spec": spec, "origin": origin, "schedule": to_candidate(spec, sched)}, cap=3)
    ctx.event("schedules_per_spec_total", n)


def replay_soundness(record, families):
    """Re-pin the recorded schedule completely; violation persists if it is still admitted and
    still judged invalid."""
    spec, seed = record["spec"], record.get("seed", 0)
    cand = record["probe"]["schedule"]
    try:
        sess = probe.Session(spec, seed)
    except B.BuildRejected as exc:
        # the library refuses the problem at creation: no schedule is returned for it any more
        return False, f"the problem is rejected at creation ({exc.stage}: {type(exc.exc).__name__})"
    st, sched, m = sess.admitted(cand, pin_horizon=False)
    if st != "sat":
        return False, f"recorded schedule is no longer admitted ({st})"
    rep_buf, rep_ind = delivered(sess, spec, sched, m, None)
    vd = ref.judge(spec, _as_reported(sched), reported_buffers=rep_buf, reported_indicators=rep_ind)
    bad = vd.bad(families)
    if bad:
        return True, summarize_bad(bad)
    return False, "admitted and valid"
