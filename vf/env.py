"""Process-wide set-up shared by all checks (trusted harness glue, DESIGN.md section 2.2).

* makes sure the package under test is imported from VF_REPO (default /repo);
* replaces the ``print`` name used inside processscheduler.solver by a collector;
* pins uuid4 to a seeded stream so that z3 constant names are a function of the case.
"""
import os
import random
import sys
import uuid
import warnings

REPO = os.environ.get("VF_REPO", "/repo")
if REPO not in sys.path[:2]:
    sys.path.insert(0, REPO)

warnings.filterwarnings("ignore")

# z3 writes C-level warnings to fd 2 (e.g. 'unknown parameter' from get_parameters_description, the
# unsat-core trace in debug mode); keep them out of the check output unless VF_DEBUG is set.
if not os.environ.get("VF_DEBUG"):
    try:
        _devnull = os.open(os.devnull, os.O_WRONLY)
        os.dup2(_devnull, 2)
    except OSError:
        pass


class HarnessError(Exception):
    """Raised when the harness itself (not the code under test) is broken."""


try:
    import z3  # noqa: E402
    import processscheduler as ps  # noqa: E402
    import processscheduler.base as ps_base  # noqa: E402
    import processscheduler.solver as ps_solver  # noqa: E402
except Exception as exc:  # pragma: no cover
    raise HarnessError(f"cannot import processscheduler from {REPO}: {exc!r}")

_real_file = os.path.realpath(ps.__file__)
if not _real_file.startswith(os.path.realpath(REPO) + os.sep):
    raise HarnessError(f"processscheduler imported from {_real_file}, expected under {REPO}")

# ---------------------------------------------------------------------------------------------
# print collector: processscheduler.solver does ``from rich import print``; we substitute the
# module-level name.  The collector keeps the *objects* passed to print (C19 reads constraints,
# C07 reads the "Found value" trace).
# ---------------------------------------------------------------------------------------------
PRINTED = []
_COLLECT = [False]


def _collector(*args, **kwargs):
    if _COLLECT[0]:
        PRINTED.append(args)


ps_solver.print = _collector


class collect_prints:
    def __enter__(self):
        PRINTED.clear()
        _COLLECT[0] = True
        return PRINTED

    def __exit__(self, *a):
        _COLLECT[0] = False
        return False


# ---------------------------------------------------------------------------------------------
# uuid pinning
# ---------------------------------------------------------------------------------------------
_real_uuid4 = uuid.uuid4
_rng = [random.Random(0)]


def _pinned_uuid4():
    return uuid.UUID(int=_rng[0].getrandbits(128), version=4)


def pin_case(seed: int) -> None:
    """Make uuid4 (hence z3 constant names) a pure function of ``seed`` until the next call."""
    _rng[0] = random.Random(seed)
    uuid.uuid4 = _pinned_uuid4
    ps_base.uuid4 = _pinned_uuid4
    ps_base.active_problem = None


def unpin() -> None:
    uuid.uuid4 = _real_uuid4
    ps_base.uuid4 = _real_uuid4


def reset_z3_globals() -> None:
    """Restore the z3 global options a default SchedulingSolver would set."""
    z3.set_option("verbose", 0)
    z3.set_option(unsat_core=False)
    z3.set_option("parallel.enable", False)
    z3.set_option("sat.threads", 1)
    z3.set_option("smt.threads", 1)
    z3.set_option("sat.random_seed", 0)
    z3.set_option("smt.random_seed", 0)
    z3.set_option("smt.arith.random_initial_value", False)
