"""Known findings (DESIGN.md section 6).  The file is read-only at run time."""
import json
import os

ROOT = os.path.dirname(os.path.dirname(os.path.abspath(__file__)))
_PATH = os.path.join(ROOT, "known_findings.json")
_cache = None


def _load():
    global _cache
    if _cache is None:
        if os.path.exists(_PATH):
            with open(_PATH) as fh:
                _cache = json.load(fh)
        else:
            _cache = {"open": [], "fixed": []}
    return _cache


def open_findings(prop):
    return [k for k in _load().get("open", []) if k["property"] == prop]


def _sig_match(sig, record):
    """sig: dict of key -> value (or list of allowed values) matched against the record's
    'signature' dict (built by the property code from rule id + element classes)."""
    rsig = record.get("signature") or {}
    for k, v in sig.items():
        rv = rsig.get(k)
        if isinstance(v, list):
            if rv not in v:
                return False
        elif rv != v:
            return False
    return True


def match(prop, record):
    for k in open_findings(prop):
        if _sig_match(k.get("signature", {}), record):
            return k["id"]
    return None


# ---------------------------------------------------------------------------------------------
# features of a (spec, schedule) pair that identify the call sites of the open findings; they are
# put into the 'signature' of violation records so that an open finding tolerates only violations
# that involve its own construct.
# ---------------------------------------------------------------------------------------------
def features(spec, sched=None):
    f = {}
    tasks = {t["name"]: t for t in spec.get("tasks", [])}
    # KF-NCBUF: an optional task both unloads and loads one non-concurrent buffer
    nc = {b["name"] for b in spec.get("buffers", []) if not b.get("concurrent")}
    acc = {}
    for c in spec.get("constraints", []):
        if c["type"] in ("TaskUnloadBuffer", "TaskLoadBuffer") and c["buffer"] in nc:
            acc.setdefault((c["task"], c["buffer"]), set()).add(c["type"])
    both = [t for (t, b), kinds in acc.items() if len(kinds) == 2 and tasks[t]["optional"]]
    if sched is not None:
        both = [t for t in both if not sched["tasks"][t]["scheduled"]]
    f["nc_buffer_load_and_unload_by_unscheduled_optional_task"] = bool(both)
    # KF-ORDGRP: an ordered group with an unscheduled optional member between two scheduled ones
    inner = False
    for c in spec.get("constraints", []):
        if c["type"] != "OrderedTaskGroup" or len(c["tasks"]) < 3:
            continue
        lst = c["tasks"]
        for i, t in enumerate(lst[1:-1], start=1):
            if not tasks[t]["optional"]:
                continue
            if sched is None:
                inner = True
            elif not sched["tasks"][t]["scheduled"] and any(sched["tasks"][x]["scheduled"] for x in lst[:i]) and any(sched["tasks"][x]["scheduled"] for x in lst[i + 1:]):
                inner = True
    f["ordered_group_with_unscheduled_inner_member"] = inner
    # KF-CUMSEL: a selection lists a cumulative worker
    cum = {c["name"] for c in spec.get("cumulative", [])}
    f["select_lists_cumulative"] = any(set(s["workers"]) & cum for s in spec.get("selects", []))
    return f
