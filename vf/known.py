"""Known findings (DESIGN.md section 6).  The file is read-only at run time."""
import json
import os

ROOT = os.path.dirname(os.path.dirname(os.path.abspath(__file__)))
_PATH = os.path.join(ROOT, "known_findings.json")
_cache = None


def _load():
    global _cache
    if _cache is None:
        if os.path.exists(_PATH):
            with open(_PATH) as fh:
                _cache = json.load(fh)
        else:
            _cache = {"open": [], "fixed": []}
    return _cache


def open_findings(prop):
    return [k for k in _load().get("open", []) if k["property"] == prop]


def _sig_match(sig, record):
    """sig: dict of key -> value (or list of allowed values) matched against the record's
    'signature' dict (built by the property code from rule id + element classes)."""
    rsig = record.get("signature") or {}
    for k, v in sig.items():
        rv = rsig.get(k)
        if isinstance(v, list):
            if rv not in v:
                return False
        elif rv != v:
            return False
    return True


def match(prop, record):
    for k in open_findings(prop):
        if _sig_match(k.get("signature", {}), record):
            return k["id"]
    return None
