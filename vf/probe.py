"""Probes: where the schedules come from (DESIGN.md section 2.4)."""
import z3

from . import adapter, build as B, env


class Session:
    """One built problem with an initialised solver; queries are wrapped in push/pop."""

    def __init__(self, spec, case_seed=0, solver_kwargs=None):
        self.spec = spec
        self.h = B.build(spec, case_seed, solver_kwargs=solver_kwargs)
        self.h.solver.initialize()
        self.z = adapter.z3solver(self.h)
        self.dvars = adapter.decision_vars(self.h)
        self.keymap = {tuple(k): v for k, v in self.dvars}
        self.n_checks = 0

    # -- helpers --------------------------------------------------------------------------------
    def var(self, key):
        key = tuple(key)
        if key == ("horizon",):
            return adapter.horizon_var(self.h)
        if key not in self.keymap:
            raise KeyError(key)
        return self.keymap[key]

    def has(self, key):
        key = tuple(key)
        return key == ("horizon",) or key in self.keymap

    def pin_to_z3(self, pin):
        if "flag" in pin:
            return self.var(pin["flag"]) == bool(pin["val"])
        lhs = self.var(pin["lhs"])
        rhs = pin["rhs"]
        r = rhs["const"] if "const" in rhs else self.var(rhs["var"]) + rhs.get("plus", 0)
        return B.CMP[pin["op"]](lhs, r)

    def pins_applicable(self, pins):
        for p in pins:
            keys = [p["flag"]] if "flag" in p else [p["lhs"]] + ([p["rhs"]["var"]] if "var" in p["rhs"] else [])
            for k in keys:
                if not self.has(k):
                    return False
            if "flag" in p:
                if not adapter.is_bool_var(self.var(p["flag"])):
                    return False
            else:
                for k in keys:
                    if adapter.is_bool_var(self.var(k)):
                        return False
        return True

    def check(self, z3pins=(), extras=True):
        """-> (status, schedule or None); status in sat / unsat / unknown"""
        self.z.push()
        try:
            for p in z3pins:
                self.z.add(p)
            self.n_checks += 1
            r = self.z.check()
            if r == z3.sat:
                m = self.z.model()
                return "sat", adapter.read_schedule(self.h, m, extras=extras), m
            if r == z3.unsat:
                return "unsat", None, None
            return "unknown", None, None
        finally:
            self.z.pop()

    def check_pins(self, pins, extras=True):
        return self.check([self.pin_to_z3(p) for p in pins], extras=extras)

    def admitted(self, sched, pin_horizon=False):
        """is this fully specified schedule admitted?  -> sat / unsat / unknown (+ read-back)"""
        return self.check(adapter.pins_for_schedule(self.h, sched, pin_horizon=pin_horizon))

    def box(self, lo, hi):
        cons = []
        for k, v in self.dvars:
            if not adapter.is_bool_var(v):
                cons.append(v >= lo)
                cons.append(v <= hi)
        return cons

    def enumerate(self, lo, hi, cap=200, extra=()):
        """all models projected on the decision variables inside the box; -> (schedules, exhausted)"""
        out = []
        self.z.push()
        try:
            for c in self.box(lo, hi):
                self.z.add(c)
            for c in extra:
                self.z.add(c)
            while len(out) < cap:
                self.n_checks += 1
                r = self.z.check()
                if r != z3.sat:
                    return out, (r == z3.unsat)
                m = self.z.model()
                out.append(adapter.read_schedule(self.h, m))
                block = []
                for k, v in self.dvars:
                    val = m.eval(v, model_completion=True)
                    block.append(v != val)
                if not block:
                    return out, True
                self.z.add(z3.Or(block))
            return out, False
        finally:
            self.z.pop()


def solve_public(spec, case_seed=0, solver_kwargs=None):
    """P0: the public path.  -> (handle, solution-or-False, exception-or-None)"""
    h = B.build(spec, case_seed, solver_kwargs=solver_kwargs)
    try:
        sol = h.solver.solve()
        return h, sol, None
    except Exception as exc:  # judged by the caller
        return h, None, exc
