"""helper to declare the encoder-vs-reference soundness checks"""
from .. import engine, spec as S
from ..runner import run_hypothesis


def make(ID, families, check_name, profiles, n_quick, n_thorough, extra_nt=None, n_sets=6, require_binding=True):
    def prop(ctx, case):
        engine.soundness_case(ctx, case, families, check_name, extra_nt=extra_nt, require_binding=require_binding)

    def run_shard(ctx):
        n = {"quick": n_quick, "thorough": n_thorough}[ctx.tier]
        for prof in profiles:
            run_hypothesis(ctx, S.spec_with_pins(prof, n_sets=n_sets), prop, max_examples=n)
        if ctx.tier == "thorough":
            # larger instances (sampling only, no enumeration): 4-6 tasks, horizons up to 12
            for prof in profiles[:2]:
                big = dict(prof, min_tasks=4, max_tasks=6, horizon=(6, 12), n_workers=(2, 4))
                run_hypothesis(ctx, S.spec_with_pins(big, n_sets=n_sets), prop, max_examples=max(20, n // 5))

    def replay(record):
        return engine.replay_soundness(record, families)

    return prop, run_shard, replay
