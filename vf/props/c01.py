"""C01 - returned schedules obey task timing: window, duration, release, deadline."""
from .. import engine, spec as S
from ..runner import run_hypothesis

ID = "C01"
FAMILIES = ("T",)
RULE = (
    "generated problem specs (1-4 tasks of all kinds, optional/mandatory, release/due on a boundary grid, "
    "with/without horizon, mixed with resources/constraints/buffers, and a stratum with task constraints nested in logical operators, optional "
    "constraints and group precedences under a declared horizon) x admitted schedules obtained by steering pins, "
    "extremal pushes and exhaustive enumeration on small instances; each schedule judged by the z3-free reference rules "
    "T1-T4. Non-trivial = schedule not the default model AND binding (some +-1/flip neighbour violates a task-timing "
    "rule); distinct by SHA-1 of (spec, schedule)."
)
TECHNIQUE = "Hypothesis-generated problems; schedules admitted by the encoder (steering pins, extremal pushes, blocking-clause enumeration) judged by a z3-free reference model"
ASSUMPTIONS = [
    "z3 sat/unsat answers and models are trusted",
    "vf/adapter.py reads task._start/_end/_duration/_scheduled and problem._horizon correctly",
    "reference rules T1-T4 of vf/ref.py follow docs/task.md",
]

PROFILES = [
    S.profile(p_resources=0, task_constraints=(0, 0), optional_rules=(0, 0), resource_constraints=(0, 0), p_release=45, p_due=45),
    S.profile(p_resources=50, task_constraints=(0, 2), optional_rules=(0, 1), resource_constraints=(0, 1), buffers=(0, 1), p_release=40, p_due=40),
    # task constraints used as operands of logical operators (declared, but not enforced on their own), optional constraints,
    # precedences over task groups, a declared horizon
    S.profile(min_tasks=2, p_no_horizon=0, p_resources=30, task_constraints=(0, 2), optional_rules=(0, 0), resource_constraints=(0, 0), fol=(1, 2), fol_depth=2, optional_constraints=25,
              p_group_precedence=20, p_optional=15, p_release=20, p_due=20, p_shared_operand=20),
]


def prop(ctx, case):
    engine.soundness_case(ctx, case, FAMILIES, "C01.soundness")


def run_shard(ctx):
    n = {"quick": 130, "thorough": 1400}[ctx.tier]
    for pi, prof in enumerate(PROFILES):
        run_hypothesis(ctx, S.spec_with_pins(prof, n_sets=6), prop, max_examples=n)


def replay(record):
    return engine.replay_soundness(record, FAMILIES)
