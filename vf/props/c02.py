"""C02 - resource capacity, assignment, selection and work amount hold in schedules."""
from .. import spec as S
from . import _sound

ID = "C02"
FAMILIES = ("W",)
RULE = (
    "generated problems with 1-3 workers (productivity 0-3), a cumulative worker, alternative selections of every "
    "kind/count, static/delayed/dynamic assignments and work amounts x admitted schedules (steered, extremal, enumerated); "
    "busy intervals and selection flags read from the model and judged by the reference rules W1-W5. Non-trivial = "
    "non-default schedule that is binding for a W rule (a +-1/flip neighbour breaks capacity, span, selection count or "
    "work amount)."
)
TECHNIQUE = "Hypothesis-generated problems; admitted schedules and worker selections (steered / enumerated) judged by a z3-free reference model"
ASSUMPTIONS = [
    "z3 answers and models trusted",
    "vf/adapter.py reads worker._busy_intervals and select._selection_dict correctly",
    "reference rules W1-W5 (vf/ref.py) follow docs/resource.md and docs/resource_assignment.md; a zero-length busy instant strictly inside another busy interval is left unspecified",
]
PROFILES = [
    # resource constraints declared between two assignments of their worker (declaration-order dependent state)
    S.profile(min_tasks=2, max_tasks=4, p_resources=100, task_constraints=(0, 0), optional_rules=(0, 0), resource_constraints=(1, 2),
              focus=["ResourceUnavailable", "WorkLoad", "ResourcePeriodicallyUnavailable"], exclude=("ResourceNonDelay", "ResourceTasksDistance", "SameWorkers", "DistinctWorkers", "ResourceInterrupted", "ResourcePeriodicallyInterrupted"),
              horizon=(3, 6), p_interleave=70, p_optional=15, p_cumulative=40),
    S.profile(min_tasks=2, p_resources=100, task_constraints=(0, 1), optional_rules=(0, 0), resource_constraints=(0, 0), horizon=(2, 6), p_work_amount=40, p_dynamic=25, p_delay=25, p_cumulative_in_select=12),
    S.profile(min_tasks=2, p_resources=100, task_constraints=(0, 2), optional_rules=(0, 1), resource_constraints=(0, 1), buffers=(0, 1), p_work_amount=30),
]
PROFILES.append(
    # a worker required directly by a task and listed again in a selection of the same task (refused by the library, or bound)
    S.profile(min_tasks=2, max_tasks=3, p_resources=100, n_workers=(2, 3), p_select=90, p_cumulative=0, p_double_require=100, task_constraints=(0, 1), optional_rules=(0, 0),
              resource_constraints=(0, 0), horizon=(2, 5), p_optional=15, p_work_amount=10, p_dynamic=5, p_delay=5)
)
prop, run_shard, replay = _sound.make(ID, FAMILIES, "C02.soundness", PROFILES, 80, 900)
