"""C03 - every declared task constraint holds in every returned schedule."""
from .. import spec as S
from . import _sound

ID = "C03"
FAMILIES = ("TC",)
RULE = (
    "for each of the 12 task-constraint classes a generated parameter grid (kinds, offsets 0-3, values -1..H+1, 1-3 "
    "intervals, exact/min/max counts, groups with window / length / neither) attached to random mixes of task kinds, "
    "optional tasks in ~30% of tasks, plus a stratum of TaskPrecedence whose operands are task groups (group-task, task-group, "
    "group-group; the relation must hold for some admissible position of the group window) x admitted schedules; each judged by the documented relation. Non-trivial = "
    "non-default schedule binding for a task constraint (a +-1/flip neighbour violates it)."
)
TECHNIQUE = "Hypothesis-generated constraint parameter grids; admitted schedules (steered / enumerated) judged by the documented relation in a z3-free reference model"
ASSUMPTIONS = [
    "z3 answers and models trusted",
    "reference relations in vf/ref.py follow docs/task_constraints.md and the class docstrings; zero-length members of contiguity lists and coinciding zero-length tasks under TasksDontOverlap are unspecified",
]
PROFILES = [
    S.profile(min_tasks=2, p_resources=0, task_constraints=(0, 1), optional_rules=(0, 0), resource_constraints=(0, 0), focus=S.TASK_CONSTRAINTS),
    S.profile(min_tasks=2, p_resources=40, task_constraints=(1, 3), optional_rules=(0, 1), resource_constraints=(0, 1), buffers=(0, 1), focus=S.TASK_CONSTRAINTS),
]
PROFILES.append(
    # counting and list constraints on one or two tasks (degenerate counts 0 / all, single-member lists)
    S.profile(min_tasks=1, max_tasks=2, p_resources=0, task_constraints=(0, 1), optional_rules=(0, 0), resource_constraints=(0, 0), p_optional=20, p_release=5, p_due=5,
              focus=["ScheduleNTasksInTimeIntervals", "ScheduleNTasksInTimeIntervals", "UnorderedTaskGroup", "OrderedTaskGroup", "TasksContiguous"])
)
PROFILES.append(
    # a task group as operand of a TaskPrecedence (group before task, task before group, group before group)
    S.profile(min_tasks=2, max_tasks=4, p_resources=20, task_constraints=(0, 1), optional_rules=(0, 0), resource_constraints=(0, 0), p_optional=30, p_release=10, p_due=10,
              p_group_precedence=100)
)
prop, run_shard, replay = _sound.make(ID, FAMILIES, "C03.soundness", PROFILES, 90, 1000)
