"""C04 - every declared resource constraint holds in every returned schedule."""
from .. import spec as S
from . import _sound

ID = "C04"
FAMILIES = ("RC",)
RULE = (
    "for each of the 9 resource-constraint classes a generated parameter grid (interval lists, bounds, kinds/modes, "
    "period 2-5, offset, start/end) on plain and cumulative workers, assigned directly or through selections, fixed and "
    "variable tasks with unpinned starts, plus a stratum of two selections sharing the cumulative worker under Same/DistinctWorkers x admitted schedules; busy intervals read from the model and judged by the "
    "documented meaning. Non-trivial = non-default schedule binding for a resource constraint."
)
TECHNIQUE = "Hypothesis-generated resource-constraint parameter grids; admitted schedules (steered / enumerated) judged by a z3-free reference model"
ASSUMPTIONS = [
    "z3 answers and models trusted",
    "reference meanings in vf/ref.py follow docs/resource_constraints.md and class docstrings; zero-length busy instants inside unavailability windows, busy intervals straddling an activity boundary, and shared starts/ends under distance/non-delay are unspecified",
]
PROFILES = [
    S.profile(min_tasks=2, max_tasks=3, p_resources=100, task_constraints=(0, 0), optional_rules=(0, 0), resource_constraints=(0, 1), focus=S.RESOURCE_CONSTRAINTS, p_optional=15, horizon=(3, 8)),
    S.profile(min_tasks=2, p_resources=100, task_constraints=(0, 2), optional_rules=(0, 1), resource_constraints=(1, 2), focus=S.RESOURCE_CONSTRAINTS, p_interleave=20),
]
PROFILES.append(
    # two selections that both list the cumulative worker (and common plain workers), under Same/DistinctWorkers
    S.profile(min_tasks=2, max_tasks=3, p_resources=100, n_workers=(2, 3), p_select=100, p_cumulative=100, p_cumulative_in_select=75, task_constraints=(0, 1), optional_rules=(0, 0),
              resource_constraints=(1, 1), focus=["SameWorkers", "DistinctWorkers"], p_optional=10, p_work_amount=5, horizon=(3, 7))
)
prop, run_shard, replay = _sound.make(ID, FAMILIES, "C04.soundness", PROFILES, 110, 1200)
