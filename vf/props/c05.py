"""C05 - no valid schedule is lost: infeasibility verdicts are truthful."""
from .. import adapter, cands, engine, known, probe, spec as S
from ..runner import run_hypothesis

ID = "C05"
RULE = (
    "generated mixed problems over every element kind; candidate schedules from the reference side: the complete candidate "
    "box (all task placements x optional decisions x selections x dynamic spans) when it has <= 1500 elements, otherwise "
    "neighbours of admitted schedules plus construction-based random candidates. Every candidate the reference judges VALID "
    "under the strictest reading is pinned completely (start/end/duration/scheduled/selection flags/dynamic spans) and must be "
    "sat; when a VALID candidate exists the public solve() must not return False. Strata besides the mixed profiles: selections over common "
    "workers, shared workload windows, optional tasks with delays under periodic / sorting constraints, cumulative workers with work amounts (lane "
    "choices searched by the reference), variable-duration tasks under interruptions, task groups as precedence operands. Non-trivial = VALID candidate of a problem "
    "that has a user constraint or shared resource and that also has INVALID candidates; distinct by SHA-1 of (spec, candidate)."
)
TECHNIQUE = "reference-side candidate schedules (exhaustive candidate box, neighbours, constructed random ones); every reference-VALID one pinned and submitted to the encoder (completeness differential)"
ASSUMPTIONS = [
    "z3 answers trusted; 'unknown' is inconclusive",
    "a candidate is submitted only if every reference rule holds under its strictest reading (vf/ref.py), so documentation ambiguities cannot raise an alarm",
    "auxiliary unknowns (sorted copies, in-interval booleans, applied flags, lanes of cumulative workers, buffer levels, indicator values) are left existential",
]
EXCLUDE = ()
PROFILES = [
    S.profile(max_tasks=3, horizon=(2, 5), p_no_horizon=5, p_resources=55, task_constraints=(0, 2), optional_rules=(0, 1), resource_constraints=(0, 1), buffers=(0, 1), p_work_amount=20, exclude=EXCLUDE),
    S.profile(max_tasks=4, horizon=(3, 7), p_resources=70, task_constraints=(0, 3), optional_rules=(0, 1), resource_constraints=(0, 2), buffers=(0, 1), fol=(0, 1), optional_constraints=15, indicators=(0, 2), indicator_constraints=30, p_work_amount=20, exclude=EXCLUDE),
]

# strata aimed at interactions that the mixed profiles reach too rarely (each one was a defect of the pinned tree)
PROFILES += [
    # two selections over three common workers, with Same/DistinctWorkers
    S.profile(min_tasks=2, max_tasks=3, horizon=(2, 5), p_no_horizon=5, p_resources=100, n_workers=(3, 3), p_select=100, p_cumulative=0, task_constraints=(0, 1), optional_rules=(0, 0),
              resource_constraints=(1, 1), focus=["SameWorkers", "DistinctWorkers"], p_optional=20, p_work_amount=5),
    # several WorkLoad / ResourceUnavailable constraints sharing one window on different resources (state shared between
    # two constraint objects, e.g. z3 constant names derived from the window)
    S.profile(min_tasks=2, max_tasks=3, horizon=(3, 6), p_no_horizon=5, p_resources=100, n_workers=(2, 3), p_select=10, p_cumulative=10, task_constraints=(0, 1), optional_rules=(0, 0),
              resource_constraints=(2, 3), focus=["WorkLoad"], p_optional=20, p_work_amount=5, p_reuse_window=80,
              exclude=("SameWorkers", "DistinctWorkers", "ResourceNonDelay", "ResourceTasksDistance", "ResourceInterrupted", "ResourcePeriodicallyInterrupted", "ResourcePeriodicallyUnavailable")),
    # optional tasks with delay_in / early_out under periodic and sorting constraints; unselected workers (parking instants)
    S.profile(min_tasks=2, max_tasks=3, horizon=(3, 6), p_no_horizon=5, p_resources=100, n_workers=(2, 3), p_select=60, p_cumulative=10, p_delay=60, task_constraints=(0, 1), optional_rules=(0, 0),
              resource_constraints=(1, 2), focus=["ResourceNonDelay", "ResourceTasksDistance", "ResourcePeriodicallyUnavailable", "ResourcePeriodicallyInterrupted"], p_optional=60, p_work_amount=5, p_interleave=15),
]


PROFILES += [
    # tasks sharing a cumulative worker whose productivity is split unevenly over its elementary workers, with work amounts
    S.profile(min_tasks=2, max_tasks=3, horizon=(2, 5), p_no_horizon=5, p_resources=100, n_workers=(1, 2), p_select=15, p_cumulative=100, p_cumulative_in_select=20, task_constraints=(0, 1),
              optional_rules=(0, 0), resource_constraints=(0, 0), p_optional=15, p_work_amount=70, p_dynamic=5, p_delay=5),
    # several variable-duration tasks on one worker under interruptions (the stretch of each task is its own overlap only)
    S.profile(min_tasks=2, max_tasks=3, horizon=(3, 6), p_no_horizon=5, p_resources=100, n_workers=(1, 1), p_select=0, p_cumulative=10, task_kinds=("var",) * 4 + ("fixed",),
              task_constraints=(0, 1), optional_rules=(0, 0), resource_constraints=(1, 1), focus=["ResourceInterrupted", "ResourcePeriodicallyInterrupted"], p_optional=15, p_work_amount=5,
              p_dynamic=0, p_delay=10, exclude=("SameWorkers", "DistinctWorkers", "ResourceNonDelay", "ResourceTasksDistance")),
    # two selections that both list the cumulative worker, under Same/DistinctWorkers
    S.profile(min_tasks=2, max_tasks=3, horizon=(2, 5), p_no_horizon=5, p_resources=100, n_workers=(2, 3), p_select=100, p_cumulative=100, p_cumulative_in_select=75, task_constraints=(0, 1),
              optional_rules=(0, 0), resource_constraints=(1, 1), focus=["SameWorkers", "DistinctWorkers"], p_optional=10, p_work_amount=5),
    # a task group as operand of a TaskPrecedence
    S.profile(min_tasks=2, max_tasks=3, horizon=(3, 6), p_no_horizon=5, p_resources=20, task_constraints=(0, 1), optional_rules=(0, 0), resource_constraints=(0, 0), p_optional=30,
              p_group_precedence=100, p_work_amount=5),
]


def prop(ctx, case):
    out = cands.completeness_case(ctx, case, "C05.completeness")
    if not out or not (out["n_valid"] or out.get("n_valid_any")):
        return
    # verdict half: the public solve() on a fresh problem must find a schedule
    if case["seed"] % 3 == 0:
        h, sol, exc = probe.solve_public(case["spec"], case["seed"])
        ctx.evaluation()
        if exc is not None:
            ctx.event("solve_raised:" + type(exc).__name__)
            ctx.violation(
                {"check": "C05.verdict", "rule": "solve_raised", "spec": case["spec"], "seed": case["seed"],
                 "probe": {"kind": "public_solve", "valid_candidate": out["valid"][0] if out["valid"] else None},
                 "observed": repr(exc), "signature": {"rule": "solve_raised", "classes": engine.classes_of(case["spec"])}}
            )
        elif (sol is False or sol is None) and str(adapter.z3solver(h).check()) != "unsat":
            # only a definite 'unsat' is a verdict; anything else means z3 gave up on the first call
            ctx.inconclusive += 1  # z3 gave up (typically the quantified encoding of a concurrent buffer)
            ctx.event("public_solve_unknown")
        elif sol is False or sol is None:
            ctx.violation(
                {"check": "C05.verdict", "rule": "no_solution_reported_but_valid_schedule_exists", "spec": case["spec"], "seed": case["seed"],
                 "probe": {"kind": "public_solve", "valid_candidate": out["valid"][0] if out["valid"] else None},
                 "observed": "solve() returned False", "signature": {"rule": "false_unsat", "classes": engine.classes_of(case["spec"]), **known.features(case["spec"])}}
            )
        else:
            ctx.event("public_solve_found_solution")


def run_shard(ctx):
    n = {"quick": 45, "thorough": 500}[ctx.tier]
    for prof in PROFILES:
        run_hypothesis(ctx, S.spec_with_pins(prof, n_sets=3, n_cands=10), prop, max_examples=n)


def replay(record):
    if record.get("check") == "C05.verdict":
        h, sol, exc = probe.solve_public(record["spec"], record.get("seed", 0))
        c = record["probe"].get("valid_candidate")
        if exc is not None:
            return True, f"solve raised {exc!r}"
        if sol is False and c is not None:
            from .. import ref
            if ref.judge(record["spec"], c, from_model=False).status() == "VALID":
                return True, "solve() returned False although a VALID schedule exists"
        return False, "solve() found a schedule"
    return cands.replay_completeness(record)
