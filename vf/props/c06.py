"""C06 - optional tasks: scheduled like mandatory ones, or inert when not scheduled."""
import copy

from .. import cands, engine, known, probe, ref, spec as S, build as B
from ..runner import run_hypothesis

ID = "C06"
ALL = ("T", "W", "TC", "RC", "OPT", "BUF", "IND", "FOL")
RULE = (
    "four generated checks: (1) encoder-vs-reference soundness with optional tasks switched on everywhere (unscheduled tasks are "
    "treated as deleted by the reference, so any residue - busy worker, buffer change, indicator contribution, triggered "
    "constraint - shows up as a rule violation on the remaining elements) incl. the force/condition/dependency/N-of-m rules; "
    "(2) completeness: reference-VALID candidates with optional tasks left unscheduled must be admitted; (3) deletion metamorphic "
    "relation implementation-vs-implementation: a schedule S of the remaining tasks is admitted by P with U pinned unscheduled "
    "iff it is admitted by P with the tasks U deleted; (4) the public solution reports an unscheduled task with "
    "scheduled=False, no assigned resource and in no assignment list. Non-trivial = at least one optional task is unscheduled "
    "in the schedule examined and it is connected to a worker, buffer, indicator, constraint or work amount."
)
ASSUMPTIONS = [
    "z3 answers and models trusted; reference semantics of vf/ref.py (unscheduled = deleted)",
    "for the deletion relation the deleted tasks are not named by force/condition/dependency/N-of-m rules, logical operands, a Same/DistinctWorkers constraint goes with the selection of a deleted task, and no resource constraint loses its last assignment (otherwise the deleted problem is ambiguous)",
]
TECHNIQUE = "Hypothesis-generated problems; reference-model differential (both directions) + deletion metamorphic relation"

OPT = dict(p_optional=60)
PROFILES = [
    S.profile(min_tasks=2, p_resources=60, task_constraints=(0, 2), optional_rules=(0, 2), resource_constraints=(0, 1), buffers=(0, 1), indicators=(0, 2), p_work_amount=30, **OPT),
    S.profile(min_tasks=2, p_resources=80, task_constraints=(1, 3), optional_rules=(1, 2), resource_constraints=(0, 2), buffers=(0, 1), indicators=(0, 1), fol=(0, 1), p_work_amount=30, p_delay=30, **OPT),
]
PROFILES.append(
    # unscheduled optional tasks whose workers carry delay_in / early_out, observed through utilisation and cost
    S.profile(min_tasks=2, max_tasks=3, p_resources=100, n_workers=(1, 2), p_select=20, p_cumulative=10, p_delay=70, task_constraints=(0, 1), optional_rules=(0, 1), resource_constraints=(0, 1),
              indicators=(1, 2), indicator_types=["ResourceUtilization", "ResourceCost", "NumberTasksAssigned"], p_work_amount=10, p_optional=70)
)
# task groups (with and without window) holding optional members, used as operands of a TaskPrecedence
PROFILE_GP = S.profile(min_tasks=2, max_tasks=3, horizon=(3, 6), p_no_horizon=5, p_resources=30, task_constraints=(0, 1), optional_rules=(0, 0), resource_constraints=(0, 0),
                       p_group_precedence=100, p_work_amount=5, p_optional=65)
PROFILES.append(PROFILE_GP)
# pairwise task constraints (precedences with offsets, synchronisations, non-overlap) whose operands are mostly optional tasks
PROFILE_PAIR = S.profile(min_tasks=2, max_tasks=3, horizon=(4, 8), p_no_horizon=5, p_resources=20, task_constraints=(1, 2), optional_rules=(0, 0), resource_constraints=(0, 0),
                         focus=["TaskPrecedence", "TaskPrecedence", "TasksStartSynced", "TasksEndSynced", "TasksDontOverlap"], p_optional=75, p_work_amount=0, p_release=10, p_due=10,
                         exclude=("TasksContiguous", "UnorderedTaskGroup", "OrderedTaskGroup", "ScheduleNTasksInTimeIntervals"))
PROFILE_DEL = S.profile(min_tasks=2, max_tasks=4, horizon=(2, 6), p_no_horizon=10, p_resources=65, task_constraints=(0, 3), optional_rules=(0, 1), resource_constraints=(0, 1), buffers=(0, 1), p_work_amount=30, p_delay=25, p_group_precedence=15, **OPT)
PROFILE_COMP = S.profile(min_tasks=2, max_tasks=3, horizon=(2, 5), p_no_horizon=5, p_resources=60, task_constraints=(0, 2), optional_rules=(0, 2), resource_constraints=(0, 1), buffers=(0, 1), p_work_amount=30, p_delay=25, p_group_precedence=15, **OPT)


def connected(spec, name):
    t = next(t for t in spec["tasks"] if t["name"] == name)
    if t.get("work_amount"):
        return True
    if any(a["task"] == name for a in spec["assign"]):
        return True
    for c in spec["constraints"]:
        if name in ref.constraint_tasks(c):
            return True
    for i in spec["indicators"]:
        if i.get("tasks") is None and i["type"] in ("Tardiness", "Earliness", "NumberOfTardyTasks", "MaximumLateness"):
            return True
        if name in (i.get("tasks") or []):
            return True
    return False


def nt_unscheduled(spec, sched):
    return any((not rec["scheduled"]) and connected(spec, n) for n, rec in sched["tasks"].items())


def prop_sound(ctx, case):
    engine.soundness_case(ctx, case, ALL, "C06.soundness", extra_nt=nt_unscheduled)


def prop_complete(ctx, case):
    def on_candidate(ctx_, sess, spec, c, vd, origin):
        pass
    out = cands.completeness_case(ctx, case, "C06.completeness", enum_cap=1500)


# ---- deletion metamorphic relation ---------------------------------------------------------------
def deletable(spec):
    """optional tasks whose deletion leaves an unambiguous problem"""
    named = set()
    for c in spec["constraints"]:
        ty = c["type"]
        if ty in S.OPTIONAL_RULES:
            named.update(ref.constraint_tasks(c))
            if ty == "OptionalTaskConditionSchedule":
                named.update(ref.expr_tasks(c["cond"]))
        if ty in S.FOL_TYPES or ty == "ConstraintFromExpression":
            named.update(_formula_tasks(c))
    for i in spec["indicators"]:
        if i["type"] == "FromMathExpression":
            named.update(ref.expr_tasks(i["expr"]))
    return [t["name"] for t in spec["tasks"] if t["optional"] and t["name"] not in named]


def _formula_tasks(c):
    out = set()
    if "ref" in c:
        return out
    if "op" in c:
        return ref.expr_tasks(c)
    out.update(ref.constraint_tasks(c))
    for k in ("cond", "expr"):
        if isinstance(c.get(k), dict):
            out |= ref.expr_tasks(c[k])
    for k in ("c", "c1", "c2"):
        if isinstance(c.get(k), dict):
            out |= _formula_tasks(c[k])
    for k in ("cs", "then", "else"):
        for x in c.get(k) or []:
            if isinstance(x, dict):
                out |= _formula_tasks(x)
    return out


def expression_tasks(spec):
    """tasks whose variables are read "as written" by a raw expression of the problem (conditions of optional-task rules
    and of Implies / IfThenElse, ConstraintFromExpression, user indicators)"""
    out = set()

    def walk(c):
        if not isinstance(c, dict) or "ref" in c:
            return
        if "op" in c:
            out.update(ref.expr_tasks(c))
            return
        for k in ("cond", "expr"):
            if isinstance(c.get(k), dict):
                out.update(ref.expr_tasks(c[k]))
        for k in ("c", "c1", "c2"):
            walk(c.get(k))
        for k in ("cs", "then", "else"):
            for x in c.get(k) or []:
                walk(x)

    for c in spec["constraints"]:
        walk(c)
    for i in spec["indicators"]:
        if i["type"] == "FromMathExpression":
            out.update(ref.expr_tasks(i["expr"]))
    return out


def delete_tasks(spec, U):
    """P \\ U, or None when the deletion is ambiguous"""
    U = set(U)
    new = copy.deepcopy(spec)
    new["tasks"] = [t for t in new["tasks"] if t["name"] not in U]
    if not new["tasks"]:
        return None
    dropped_selects = {a["res"] for a in spec["assign"] if a["task"] in U and a["res"] in {s["name"] for s in spec["selects"]}}
    new["assign"] = [a for a in new["assign"] if a["task"] not in U]
    new["selects"] = [s for s in new["selects"] if s["name"] not in dropped_selects]
    busy = S.assigned_resources(new)
    cons = []
    for c in new["constraints"]:
        ty = c["type"]
        if ty in ("TaskUnloadBuffer", "TaskLoadBuffer") or ty in ("TaskStartAt", "TaskEndAt", "TaskStartAfter", "TaskEndBefore"):
            if c["task"] in U:
                continue
        elif ty == "TaskPrecedence":
            if c["before"] in U or c["after"] in U:
                continue
        elif ty == "GroupPrecedence":
            if c.get("before") in U or c.get("after") in U:
                continue
            for k in ("gbefore", "gafter"):
                if c.get(k) and all(x in U for x in ref.find_constraint(spec, c[k])["tasks"]):
                    return None  # a precedence over a group without any member left: keep out
        elif ty in ("TasksStartSynced", "TasksEndSynced", "TasksDontOverlap"):
            if c["t1"] in U or c["t2"] in U:
                continue
        elif ty in ("TasksContiguous", "UnorderedTaskGroup", "OrderedTaskGroup", "ScheduleNTasksInTimeIntervals"):
            c["tasks"] = [x for x in c["tasks"] if x not in U]
            if not c["tasks"]:
                if ty == "ScheduleNTasksInTimeIntervals":
                    return None  # a count over an empty list: keep out
                continue
        elif ty in ("WorkLoad", "ResourceUnavailable", "ResourcePeriodicallyUnavailable", "ResourceInterrupted", "ResourcePeriodicallyInterrupted", "ResourceNonDelay"):
            if busy.get(c["res"], 0) < 1:
                return None
        elif ty == "ResourceTasksDistance":
            if busy.get(c["res"], 0) < 2:
                return None
        elif ty in ("SameWorkers", "DistinctWorkers"):
            if c["s1"] in dropped_selects or c["s2"] in dropped_selects:
                continue  # the selection of a deleted task binds nothing
        cons.append(c)
    new["constraints"] = cons
    inds = []
    for i in new["indicators"]:
        if i.get("tasks") is not None:
            i["tasks"] = [x for x in i["tasks"] if x not in U]
            if not i["tasks"]:
                return None
        if i["type"] in ("ResourceUtilization", "NumberTasksAssigned", "ResourceIdle") and busy.get(i["res"], 0) < 1:
            return None
        if i["type"] == "ResourceCost" and any(busy.get(r, 0) < 1 for r in i["ress"]):
            return None
        inds.append(i)
    new["indicators"] = inds
    return new


def project(spec, new_spec, U, cand):
    """candidate of P (with U unscheduled) -> candidate of P\\U"""
    keep = [ai for ai, a in enumerate(spec["assign"]) if a["task"] not in U]
    out = {"horizon": cand["horizon"], "tasks": {n: r for n, r in cand["tasks"].items() if n not in U}, "assign": [copy.deepcopy(cand["assign"][ai]) for ai in keep]}
    if "horizon_var" in cand:
        out["horizon_var"] = cand["horizon_var"]
    return out


def lift(spec, new_spec, U, cand):
    """candidate of P\\U -> candidate of P with U unscheduled"""
    out = {"horizon": cand["horizon"], "tasks": dict(cand["tasks"]), "assign": []}
    for n in U:
        out["tasks"][n] = {"scheduled": False, "start": None, "end": None, "duration": None}
    it = iter(cand["assign"])
    for a in spec["assign"]:
        if a["task"] in U:
            out["assign"].append({"chosen": None, "busy": {}})
        else:
            out["assign"].append(copy.deepcopy(next(it)))
    return out


def prop_delete(ctx, case):
    spec, seed = case["spec"], case["seed"]
    elig = deletable(spec)
    if not elig:
        ctx.event("del_no_eligible_task")
        return
    k = 1 + (seed % len(elig)) if len(elig) > 1 and seed % 3 == 0 else 1
    U = sorted(elig[(seed // 7) % len(elig):][:k]) or [elig[0]]
    P2 = delete_tasks(spec, U)
    if P2 is None:
        ctx.event("del_ambiguous")
        return
    try:
        s1 = probe.Session(spec, seed)
        s2 = probe.Session(P2, seed + 1)
    except B.BuildRejected as exc:
        ctx.event(f"build_rejected:{exc.stage}:{type(exc.exc).__name__}")
        return
    ctx.event("del_pairs")
    # candidates of P\U: admitted ones (steered) + the candidate box / random ones
    cl = []
    ex2 = engine.Explorer(ctx, P2, seed + 1)
    ex2.sess = s2
    pins2 = [p for p in case["pins"] if s2.pins_applicable(p)]
    for origin, sched, m in ex2.schedules(pins2[:4], enum_cap=0, extremal=1):
        cl.append(("admitted_in_deleted", engine.to_candidate(P2, sched)))
    gen, exhaustive = cands.all_candidates(P2, cap=300)
    n_box = 0
    for c in gen:
        cl.append(("box", c))
        n_box += 1
    # candidates from P with U pinned unscheduled
    ex1 = engine.Explorer(ctx, spec, seed)
    ex1.sess = s1
    upins = [{"flag": ["task", n, "scheduled"], "val": False} for n in U]
    for pins in [[]] + [p for p in case["pins"][:4]]:
        full = upins + [a for a in pins if not ("flag" in a and a["flag"][1] in U) and not ("lhs" in a and a["lhs"][0] == "task" and a["lhs"][1] in U)]
        if not s1.pins_applicable(full):
            continue
        st, sched, m = s1.check_pins(full, extras=False)
        if st == "sat":
            cl.append(("admitted_in_original", project(spec, P2, set(U), engine.to_candidate(spec, sched))))
    seen = set()
    n_agree_sat = n_agree_unsat = 0
    readers = expression_tasks(spec)
    for origin, c2 in cl:
        from ..runner import digest
        kx = digest(c2)
        if kx in seen:
            continue
        seen.add(kx)
        if any(r["scheduled"] and (r["start"] is None or r["end"] is None) for r in c2["tasks"].values()):
            continue
        c1 = lift(spec, P2, U, c2)
        if any(not c1["tasks"][n]["scheduled"] for n in readers):
            # a raw expression reads the variables of a task that is not scheduled in this schedule: its value is the
            # parking instant, an arbitrary number that changes when another optional task is deleted (unspecified)
            ctx.event("del_expression_over_unscheduled_task_unspecified")
            continue
        r2, _, _ = s2.admitted(c2)
        r1, _, _ = s1.admitted(c1)
        ctx.evaluation()
        if "unknown" in (r1, r2):
            ctx.inconclusive += 1
            continue
        if r1 != r2:
            rec = {
                "check": "C06.deletion", "rule": f"original_{r1}_deleted_{r2}", "spec": spec, "seed": seed,
                "probe": {"kind": "deletion", "U": U, "deleted_spec": P2, "schedule": c2, "origin": origin},
                "observed": f"schedule of the remaining tasks is {r1} in P (U unscheduled) but {r2} in P without U",
                "signature": {"rule": f"deletion_{r1}_{r2}", "classes": engine.classes_of(spec), **known.features(spec, c1)},
            }
            ctx.violation(rec)
            continue
        if r1 == "sat":
            n_agree_sat += 1
        else:
            n_agree_unsat += 1
    if n_agree_sat and any(connected(spec, n) for n in U):
        ctx.nontrivial_case({"spec": spec, "U": U})
        ctx.event("del_nontrivial")
        ctx.sample({"spec": spec, "deleted": U, "agree_sat": n_agree_sat, "agree_unsat": n_agree_unsat}, cap=2)


def prop_report(ctx, case):
    spec, seed = case["spec"], case["seed"]
    try:
        h, sol, exc = probe.solve_public(spec, seed)
    except B.BuildRejected as e:
        ctx.event(f"build_rejected:{e.stage}:{type(e.exc).__name__}")
        return
    if exc is not None:
        ctx.violation({"check": "C06.report", "rule": "solve_raised", "spec": spec, "seed": seed, "probe": {"kind": "public_solve"},
                       "observed": repr(exc), "signature": {"rule": "solve_raised", "classes": engine.classes_of(spec)}})
        return
    if not sol:
        ctx.event("report_no_solution")
        return
    ctx.evaluation()
    bad = report_defects(spec, sol)
    if bad:
        ctx.violation({"check": "C06.report", "rule": bad[0][0], "spec": spec, "seed": seed, "probe": {"kind": "public_solve"},
                       "observed": bad, "signature": {"rule": bad[0][0], "classes": engine.classes_of(spec)}})
        return
    uns = [n for n, t in sol.tasks.items() if not t.scheduled]
    if any(connected(spec, n) for n in uns):
        ctx.nontrivial_case({"spec": spec, "unscheduled": uns, "report": True})
        ctx.event("report_nontrivial")


def report_defects(spec, sol):
    bad = []
    opt = {t["name"]: t["optional"] for t in spec["tasks"]}
    for n, t in sol.tasks.items():
        if not opt[n] and not t.scheduled:
            bad.append(("mandatory_task_reported_unscheduled", n))
        if not t.scheduled:
            if t.assigned_resources:
                bad.append(("unscheduled_task_has_assigned_resources", [n, list(t.assigned_resources)]))
            for rn, r in sol.resources.items():
                if any(a[0] == n for a in r.assignments):
                    bad.append(("unscheduled_task_in_assignment_list", [n, rn]))
    return bad


def run_shard(ctx):
    q = ctx.tier == "quick"
    for prof in PROFILES:
        run_hypothesis(ctx, S.spec_with_pins(prof, n_sets=5), prop_sound, max_examples=35 if q else 400)
    run_hypothesis(ctx, S.spec_with_pins(PROFILE_COMP, n_sets=2, n_cands=6), prop_complete, max_examples=35 if q else 400)
    run_hypothesis(ctx, S.spec_with_pins(PROFILE_DEL, n_sets=5), prop_delete, max_examples=45 if q else 500)
    run_hypothesis(ctx, S.spec_with_pins(PROFILE_GP, n_sets=2, n_cands=6), prop_complete, max_examples=20 if q else 250)
    run_hypothesis(ctx, S.spec_with_pins(PROFILE_GP, n_sets=5), prop_delete, max_examples=25 if q else 300)
    run_hypothesis(ctx, S.spec_with_pins(PROFILE_PAIR, n_sets=2, n_cands=6), prop_complete, max_examples=20 if q else 250)
    run_hypothesis(ctx, S.spec_with_pins(PROFILE_PAIR, n_sets=5), prop_delete, max_examples=25 if q else 300)
    run_hypothesis(ctx, S.spec_with_pins(PROFILES[0], n_sets=0), prop_report, max_examples=40 if q else 400)


def replay(record):
    ck = record.get("check")
    if ck == "C06.soundness":
        return engine.replay_soundness(record, ALL)
    if ck == "C06.completeness":
        return cands.replay_completeness(record)
    if ck == "C06.deletion":
        spec, seed = record["spec"], record.get("seed", 0)
        U, P2, c2 = record["probe"]["U"], record["probe"]["deleted_spec"], record["probe"]["schedule"]
        c1 = lift(spec, P2, U, c2)
        if any(not c1["tasks"][n]["scheduled"] for n in expression_tasks(spec)):
            return False, "a raw expression reads an unscheduled task: unspecified"
        s1, s2 = probe.Session(spec, seed), probe.Session(P2, seed + 1)
        r1, _, _ = s1.admitted(c1)
        r2, _, _ = s2.admitted(c2)
        if "unknown" not in (r1, r2) and r1 != r2:
            return True, f"original {r1}, deleted {r2}"
        return False, f"both {r1}"
    if ck == "C06.report":
        h, sol, exc = probe.solve_public(record["spec"], record.get("seed", 0))
        if exc is not None:
            return True, repr(exc)
        if not sol:
            return False, "no solution"
        bad = report_defects(record["spec"], sol)
        return (True, bad) if bad else (False, "report consistent")
    raise ValueError(ck)
