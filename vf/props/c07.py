"""C07 - optimisation returns a best schedule; early stops still return valid ones."""
from fractions import Fraction

import z3

from .. import adapter, build as B, cands, engine, env, known, probe, ref, spec as S
from ..runner import run_hypothesis

ID = "C07"
RULE = (
    "generated small bounded problems carrying 1-2 objectives of one direction (every built-in objective class and "
    "Minimize/MaximizeIndicator over generated indicators, weights 1-3), solved (1) by the incremental optimiser, (2) by the "
    "built-in optimiser, (3) by the incremental optimiser interrupted at max_iter = 1..3 and by a harness-owned fake clock. "
    "Oracles: (a) brute force - the reference enumerates the complete candidate box, keeps VALID schedules, evaluates the "
    "objective and takes the best: must equal the reported optimum; (b) re-ask - on a fresh solver 'objective better than "
    "reported' must be unsat; (c) incremental value = built-in value; (d) every interrupted run returns a reference-valid "
    "schedule whose value is the last (best) of the captured 'Found value' trace, and the trace improves strictly. "
    "Non-trivial = the first model found is not already optimal (>= 2 values in the trace); distinct by SHA-1 of the spec."
)
ASSUMPTIONS = [
    "z3 answers trusted; z3 'unknown' and the optimiser's own early exits are inconclusive for optimality",
    "objective definitions of vf/ref.py follow docs/objectives.md and the class docstrings; objectives whose documented value is not an exact number on a schedule (polynomial cost, cumulative workers, lists with unscheduled members) are only checked by oracles (b)-(d)",
    "the objective variable is read through solver._objective._target (vf/adapter glue)",
]
TECHNIQUE = "Hypothesis-generated optimisation problems; brute-force reference optimum + metamorphic re-ask + differential between optimisers + interruption points"

PROFILE = S.profile(min_tasks=1, max_tasks=3, horizon=(2, 5), p_no_horizon=0, p_resources=70, task_constraints=(0, 2), optional_rules=(0, 1), resource_constraints=(0, 1),
                    buffers=(0, 1), indicators=(0, 2), objectives=(1, 2), p_optional=25, p_release=20, p_due=35, p_work_amount=10, p_cumulative=15, p_indicator_bounds=60)
# a second stratum: objectives over bounded indicators (user bounds, utilisation 0..100) - the early 'bound reached' exit of the
# incremental loop - with few other elements so that the first model often sits on a bound
PROFILE_BOUNDED = S.profile(min_tasks=1, max_tasks=2, horizon=(2, 5), p_no_horizon=0, p_resources=80, task_constraints=(0, 1), optional_rules=(0, 0), resource_constraints=(0, 0),
                            indicators=(1, 2), indicator_types=["FromMathExpression", "ResourceUtilization", "FromMathExpression"], objectives=(1, 1), p_optional=35,
                            p_release=10, p_due=10, p_work_amount=0, p_cumulative=0, p_select=20, p_indicator_bounds=85, only_objectives=["MinimizeIndicator", "MaximizeIndicator"],
                            indicator_constraints=40, optional_constraints=60)  # optional IndicatorBounds/Target on the optimised indicator bind nothing
# objectives over user indicators WITHOUT declared bounds that carry optional (hence void) IndicatorBounds / IndicatorTarget
PROFILE_VOIDBOUNDS = S.profile(min_tasks=1, max_tasks=3, horizon=(3, 6), p_no_horizon=0, p_resources=30, task_constraints=(0, 1), optional_rules=(0, 0), resource_constraints=(0, 0),
                               indicators=(1, 2), indicator_types=["FromMathExpression"], objectives=(1, 1), only_objectives=["MinimizeIndicator", "MaximizeIndicator"],
                               indicator_constraints=80, optional_constraints=80, p_indicator_bounds=15, p_optional=15, p_release=10, p_due=10, p_work_amount=0, p_weight_zero=0)
# start-time objectives over optional tasks (an unscheduled task contributes to no objective)
PROFILE_STARTOBJ = S.profile(min_tasks=2, max_tasks=3, horizon=(2, 5), p_no_horizon=0, p_resources=40, task_constraints=(0, 2), optional_rules=(0, 1), resource_constraints=(0, 0),
                             objectives=(1, 1), only_objectives=["TasksStartLatest", "MinimizeGreatestStartTime"], p_optional=65, p_release=20, p_due=30)
# weighted sums of two conflicting user indicators, weights 0..3
PROFILE_WEIGHTS = S.profile(min_tasks=2, max_tasks=3, horizon=(3, 5), p_no_horizon=0, p_resources=30, task_constraints=(0, 2), optional_rules=(0, 0), resource_constraints=(0, 0),
                            indicators=(2, 3), indicator_types=["FromMathExpression"], objectives=(2, 2), only_objectives=["MinimizeIndicator", "MaximizeIndicator"],
                            p_optional=10, p_release=20, p_due=20, p_weight_zero=35, p_indicator_bounds=30)
VALID_FAMILIES = ("T", "W", "TC", "RC", "OPT", "BUF", "FOL")


def target_var(h):
    obj = adapter._get(h.solver, "_objective")
    if obj is None:
        raise env.HarnessError("solver has no single objective")
    return adapter._get(obj, "_target")


def weights(spec):
    if len(spec["objectives"]) == 1:  # a single objective is optimised as it is; weights only combine several
        return [(spec["objectives"][0], 1)]
    return [(o, (1 if o.get("weight") is None else o["weight"])) for o in spec["objectives"]]


def kind_of(spec):
    return ref.objective_kind(spec["objectives"][-1])


def ref_objective(spec, vd):
    """exact weighted objective on a judged schedule, or None"""
    tot = Fraction(0)
    exact_int = True
    for o, w in weights(spec):
        val = ref.objective_value(o, vd.view, spec)
        if val is None:
            return None, False
        if isinstance(val, tuple):
            lo, hi = val[1]
            if lo != hi:
                return None, False
            val = lo
        if val.denominator != 1:
            exact_int = False
            if len(spec["objectives"]) > 1:
                return None, False
        tot += w * val
    return tot, exact_int


def run_solver(spec, seed, kw):
    h = B.build(spec, seed, solver_kwargs=kw)
    with env.collect_prints() as printed:
        sol = h.solver.solve()
        trace = []
        for args in printed:
            if args and isinstance(args[0], str) and "Found value:" in args[0]:
                trace.append(int(args[0].split("Found value:")[1].split()[0]))
            if args and isinstance(args[0], str) and "Reason:" in args[0] and "Unsatisfiable" not in args[0]:
                h.unknown_seen = True  # z3 answered 'unknown' somewhere: the run is not a completed optimisation
            if args and isinstance(args[0], str) and "Max time" in args[0]:
                h.cut_short = True  # the optimiser left its loop on its time limit
    return h, sol, trace


def value_in_model(h):
    m = adapter._get(h.solver, "_model")
    return m.eval(target_var(h), model_completion=True).as_long()


class FakeTime:
    """harness-owned clock substituted for the ``time`` name of processscheduler.solver"""

    def __init__(self, step):
        self.t = 0.0
        self.step = step

    def perf_counter(self):
        self.t += self.step
        return self.t


def prop(ctx, case):
    spec, seed = case["spec"], case["seed"]
    if not spec["objectives"]:
        ctx.event("no_objective_generated")
        return
    kinds = {ref.objective_kind(o) for o in spec["objectives"]}
    if len(kinds) != 1:
        return
    kind = kinds.pop()
    for o in spec["objectives"]:
        ctx.event("objective:" + o["type"])

    def viol(rule, observed, extra=None):
        ctx.violation({"check": "C07.optimum", "rule": rule, "spec": spec, "seed": seed, "probe": dict({"kind": "optimisation"}, **(extra or {})),
                       "observed": observed, "signature": {"rule": rule, "classes": engine.classes_of(spec), "objectives": sorted(o["type"] for o in spec["objectives"]), **known.features(spec)}})

    multi = len(spec["objectives"]) > 1
    # (1) incremental, allowed to finish
    try:
        h1, sol1, trace1 = run_solver(spec, seed, {"optimizer": "incremental"})
    except B.BuildRejected as exc:
        ctx.event(f"build_rejected:{exc.stage}:{type(exc.exc).__name__}")
        return
    except Exception as exc:
        viol("incremental_solve_raised", repr(exc))
        return
    ctx.evaluation()
    if not sol1:
        ctx.event("infeasible_or_unknown")
        return
    if getattr(h1, "unknown_seen", False):
        ctx.event("z3_unknown_during_optimisation")
        ctx.inconclusive += 1
        return
    cut_short = getattr(h1, "cut_short", False)  # the real clock ended the run that was "allowed to finish" (loaded machine)
    from .c15 import classify
    # the built-in optimiser is only compared inside the linear, array- and quantifier-free fragment: outside it
    # z3.Optimize answers 'sat' with models that are not optimal (observed with polynomial costs, modulo
    # constraints, concurrent AND array-based non-concurrent buffers); see DESIGN.md section 5
    decidable = classify(spec) in ("idl", "lia")
    v1 = value_in_model(h1)
    if trace1 and trace1[-1] != v1:
        viol("returned_value_is_not_last_found", {"trace": trace1, "returned": v1})
        return
    for a, b in zip(trace1, trace1[1:]):
        if (kind == "minimize" and not b < a) or (kind == "maximize" and not b > a):
            viol("trace_not_strictly_improving", {"trace": trace1})
            return
    sched1 = adapter.read_schedule(h1, adapter._get(h1.solver, "_model"))
    vd1 = ref.judge(spec, sched1)
    bad = vd1.bad(VALID_FAMILIES)
    if bad:
        viol("optimal_schedule_invalid", engine.summarize_bad(bad))
        return
    if cut_short:
        # an early stop: the schedule is valid and the best found so far (judged above); its optimality is not judged
        ctx.event("optimisation_cut_short_by_the_real_clock")
        ctx.inconclusive += 1
        return
    # (b) re-ask on a fresh solver
    sess = probe.Session(spec, seed + 1, {"optimizer": "incremental"})
    tvar = target_var(sess.h)
    st, better, _ = sess.check([tvar < v1] if kind == "minimize" else [tvar > v1], extras=False)
    ctx.evaluation()
    if st == "sat":
        viol("better_value_exists", {"reported": v1, "kind": kind, "trace": trace1})
        return
    if st == "unknown":
        ctx.inconclusive += 1
    # (c) built-in optimiser
    try:
        h2, sol2, _ = run_solver(spec, seed + 2, {"optimizer": "optimize", "optimize_priority": "weight" if multi else ["pareto", "lex", "box", "weight"][seed % 4]})
        ctx.evaluation()
        if sol2 and not decidable:
            ctx.event("optimize_not_compared_outside_decidable_fragment")
        elif sol2:
            if multi:
                v2 = value_in_model(h2)
            else:
                m2 = adapter._get(h2.solver, "_model")
                v2 = m2.eval(target_var(h2), model_completion=True).as_long()
            # z3 4.12.6's Optimize returns non-optimal models even on tiny linear problems (measured: 0,0,0,5,5 for
            # five runs of one exported .smt2, see DESIGN.md section 5), so a WORSE built-in value is inconclusive.
            # Decided instead: (i) the built-in optimiser never beats the incremental optimum, (ii) the objectives
            # handed to z3 are the declared ones with the declared direction.
            if (kind == "minimize" and v2 < v1) or (kind == "maximize" and v2 > v1):
                viol("optimisers_disagree", {"incremental": v1, "optimize": v2, "kind": kind, "note": "built-in optimiser beats the 'optimal' incremental value"})
                return
            if v2 != v1:
                ctx.event("builtin_optimiser_returned_non_optimal_value")
                ctx.inconclusive += 1
            else:
                ctx.event("builtin_optimiser_agrees")
            registered = [str(x) for x in adapter._get(h2.solver, "_solver").objectives()]
            expected = str(target_var(h2)) if kind == "minimize" else str(-target_var(h2))
            if registered != [expected]:
                viol("objective_handed_to_z3_differs_from_declared", {"registered": registered, "expected": [expected], "kind": kind})
                return
            sched2 = adapter.read_schedule(h2, adapter._get(h2.solver, "_model"))
            bad2 = ref.judge(spec, sched2).bad(VALID_FAMILIES)
            if bad2:
                viol("optimize_schedule_invalid", engine.summarize_bad(bad2))
                return
        elif getattr(h2, "unknown_seen", False) or not decidable:
            ctx.inconclusive += 1
        else:
            viol("optimize_found_no_solution_but_incremental_did", {"incremental": v1})
            return
    except B.BuildRejected:
        pass
    except Exception as exc:
        viol("optimize_solve_raised", repr(exc))
        return
    # (a) brute force on the candidate box
    gen, exhaustive = cands.all_candidates(spec, cap=1500)
    if exhaustive:
        best = None
        undetermined = False
        for c in gen:
            vd = ref.judge(spec, c, from_model=False)
            stt = vd.status()
            if stt == "INVALID":
                continue
            val, exact_int = ref_objective(spec, vd)
            if stt == "UNSPECIFIED" or val is None:
                undetermined = True
                continue
            if best is None or (kind == "minimize" and val < best) or (kind == "maximize" and val > best):
                best = val
        ctx.evaluation()
        if best is not None:
            better_than_reported = (best < v1 and (v1 - best) >= 1) if kind == "minimize" else (best > v1 and (best - v1) >= 1)
            worse_than_reported = (v1 < best and (best - v1) >= 1) if kind == "minimize" else (v1 > best and (v1 - best) >= 1)
            if better_than_reported:
                viol("reference_schedule_beats_reported_optimum", {"reported": v1, "reference_best": str(best), "kind": kind})
                return
            if worse_than_reported and not undetermined:
                viol("reported_optimum_not_attained_by_any_valid_schedule", {"reported": v1, "reference_best": str(best), "kind": kind})
                return
            ctx.event("brute_force_agrees")
        else:
            ctx.event("brute_force_undetermined")
    # (d) interruption points
    for k in (1, 2, 3):
        try:
            hk, solk, tracek = run_solver(spec, seed + 10 + k, {"optimizer": "incremental", "max_iter": k})
        except Exception as exc:
            viol("interrupted_solve_raised", repr(exc), {"max_iter": k})
            return
        ctx.evaluation()
        if getattr(hk, "unknown_seen", False):
            ctx.inconclusive += 1
            continue
        if not solk:
            viol("interrupted_run_lost_the_solution", {"max_iter": k, "trace": tracek})
            return
        vk = value_in_model(hk)
        if not tracek or vk != tracek[-1]:
            viol("interrupted_run_not_best_so_far", {"max_iter": k, "trace": tracek, "returned": vk})
            return
        if any((kind == "minimize" and vk > x) or (kind == "maximize" and vk < x) for x in tracek):
            viol("interrupted_run_worse_than_an_earlier_schedule", {"max_iter": k, "trace": tracek, "returned": vk})
            return
        if (kind == "minimize" and vk < v1) or (kind == "maximize" and vk > v1):
            viol("interrupted_run_beats_the_reported_optimum", {"max_iter": k, "returned": vk, "optimum": v1})
            return
        badk = ref.judge(spec, adapter.read_schedule(hk, adapter._get(hk.solver, "_model"))).bad(VALID_FAMILIES)
        if badk:
            viol("interrupted_schedule_invalid", engine.summarize_bad(badk), {"max_iter": k})
            return
    # time exits through the fake clock
    real_time = env.ps_solver.time
    try:
        env.ps_solver.time = FakeTime([0.3, 2.0, 6.0][seed % 3])
        ht, solt, tracet = run_solver(spec, seed + 20, {"optimizer": "incremental", "max_time": 10})
    except Exception as exc:
        env.ps_solver.time = real_time
        viol("time_limited_solve_raised", repr(exc))
        return
    finally:
        env.ps_solver.time = real_time
    ctx.evaluation()
    if getattr(ht, "unknown_seen", False):
        ctx.inconclusive += 1
        return
    if not solt:
        viol("time_limited_run_lost_the_solution", {"trace": tracet})
        return
    vt = value_in_model(ht)
    if not tracet or vt != tracet[-1] or (kind == "minimize" and vt < v1) or (kind == "maximize" and vt > v1):
        viol("time_limited_run_not_best_so_far", {"trace": tracet, "returned": vt, "optimum": v1})
        return
    badt = ref.judge(spec, adapter.read_schedule(ht, adapter._get(ht.solver, "_model"))).bad(VALID_FAMILIES)
    if badt:
        viol("time_limited_schedule_invalid", engine.summarize_bad(badt))
        return
    if len(tracet) < len(trace1):
        ctx.event("fake_clock_cut_the_run_short")
    if len(trace1) >= 2:
        ctx.nontrivial_case({"spec": spec})
        ctx.event("nontrivial")
        ctx.sample({"spec": spec, "trace": trace1, "optimum": v1, "kind": kind}, cap=3)


def run_shard(ctx):
    n = {"quick": 40, "thorough": 400}[ctx.tier]
    run_hypothesis(ctx, S.spec_with_pins(PROFILE, n_sets=0), prop, max_examples=n)
    run_hypothesis(ctx, S.spec_with_pins(PROFILE_BOUNDED, n_sets=0), prop, max_examples=n)
    run_hypothesis(ctx, S.spec_with_pins(PROFILE_STARTOBJ, n_sets=0), prop, max_examples=n // 2)
    run_hypothesis(ctx, S.spec_with_pins(PROFILE_WEIGHTS, n_sets=0), prop, max_examples=n // 2)
    run_hypothesis(ctx, S.spec_with_pins(PROFILE_VOIDBOUNDS, n_sets=0), prop, max_examples=n + n // 2)


def replay(record):
    from ..runner import Ctx
    ctx = Ctx("C07", "quick", 0, 0, 1, collect=True)
    ctx.replaying = True
    prop(ctx, {"spec": record["spec"], "seed": record.get("seed", 0)})
    if ctx.violations:
        b, (sz, rec) = next(iter(ctx.violations.items()))
        return True, {"rule": rec["rule"], "observed": rec["observed"]}
    return False, "no violation"
