"""C08 - reported indicator values equal their definition on the reported schedule."""
from fractions import Fraction

from .. import engine, spec as S
from . import _sound

ID = "C08"
FAMILIES = ("IND",)
RULE = (
    "generated problems carrying 1-3 indicators of every class (tardiness, earliness, tardy count, maximum lateness, "
    "utilisation, idle, tasks assigned, cost with constant/linear/quadratic functions and coefficients -2..5, buffer extrema, "
    "user expressions) plus IndicatorTarget/IndicatorBounds constraints, horizons 2-8 and 7, 9, 11, 13, 150, 200 and no horizon, "
    "optional and alternative assignments x admitted schedules (steered/extremal/enumerated); the value delivered by "
    "build_solution(model) is compared with the reference recomputation from the same schedule as delivered (with the reported horizon "
    "when the problem declares none): |reported - exact| < 1. "
    "Non-trivial = non-default schedule in which some judged indicator has a non-zero exact value; distinct by SHA-1."
)
ASSUMPTIONS = [
    "z3 answers and models trusted",
    "indicator definitions of vf/ref.py follow docs/indicator.md, docs/objectives.md and the class docstrings; cost of a polynomial function may be the exact integral or the documented trapezoid; indicators over cumulative workers other than cost bounds, maximum lateness over lists with unscheduled members, utilisation with horizon 0 and expressions over unscheduled tasks are unspecified",
]
TECHNIQUE = "Hypothesis-generated problems and steered schedules; reference recomputation of every indicator (differential)"

HC = [7, 9, 11, 13, 150, 200]
PROFILES = [
    S.profile(min_tasks=1, max_tasks=3, p_resources=85, task_constraints=(0, 1), optional_rules=(0, 0), resource_constraints=(0, 0), indicators=(1, 3), p_due=70, horizon_choices=HC, p_select=30, indicator_constraints=30),
    S.profile(min_tasks=2, max_tasks=4, p_resources=80, task_constraints=(0, 2), optional_rules=(0, 1), resource_constraints=(0, 1), buffers=(0, 1), indicators=(1, 3), p_due=60, horizon_choices=HC, p_horizon_choices=25, indicator_constraints=25, optional_constraints=10),
]


def nontrivial(spec, sched):
    from .. import ref
    vd = ref.judge(spec, sched, from_model=True)
    v = vd.view
    for i in spec["indicators"]:
        rng = ref.indicator_value(i, v, spec)
        if rng is not None and (rng[0] != 0 or rng[1] != 0):
            return True
    return False


def _with_indicator_constraints(prof):
    return prof


prop, run_shard, replay = _sound.make(ID, FAMILIES, "C08.soundness", PROFILES, 80, 900, extra_nt=nontrivial, require_binding=False)
