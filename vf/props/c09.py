"""C09 - buffer levels follow loads/unloads in time order and stay within bounds."""
from .. import cands, engine, probe, ref, spec as S, build as B
from ..runner import run_hypothesis

ID = "C09"
FAMILIES = ("BUF",)
RULE = (
    "generated problems with 1-2 buffers of both kinds, 1-4 accessing tasks incl. zero-duration and optional ones, quantities "
    "1-3, initial/final/lower/upper around the reachable range, unpinned starts, plus steering pins that force ties "
    "(start(a) = end(b)). (i) every admitted schedule: the level / level_change_times delivered by build_solution(model) equal "
    "the reference event simulation (same instants, same levels, initial first, final last), every level within bounds, no "
    "tie on a non-concurrent buffer; (ii) candidate placements: reference-VALID ones (incl. ties on concurrent buffers) must "
    "be admitted. Non-trivial = >= 2 accesses and (event order differs from declaration order, or a tie, or a bound attained)."
)
ASSUMPTIONS = [
    "z3 answers and models trusted; 'unknown' (quantified encoding of concurrent buffers) is inconclusive",
    "reference event simulation in vf/ref.py follows docs/buffer.md: unload at task start, load at task completion, level after all accesses of an instant",
    "solver.build_solution(model) is the delivery path of buffer levels",
]
TECHNIQUE = "Hypothesis-generated problems; differential vs reference event simulation, both directions"

PROFILES = [
    S.profile(min_tasks=2, max_tasks=4, p_resources=0, task_constraints=(0, 1), optional_rules=(0, 0), resource_constraints=(0, 0), buffers=(1, 2), horizon=(3, 7), p_release=10, p_due=10),
    S.profile(min_tasks=2, max_tasks=4, p_resources=40, task_constraints=(0, 2), optional_rules=(0, 1), resource_constraints=(0, 1), buffers=(1, 2), horizon=(3, 7)),
]


def tie_pins(spec):
    """steering pins that force simultaneous accesses"""
    acc = [c for c in spec["constraints"] if c["type"] in ("TaskUnloadBuffer", "TaskLoadBuffer")]
    out = []
    for i, a in enumerate(acc):
        for b in acc[i + 1:]:
            if a["buffer"] != b["buffer"] or a["task"] == b["task"]:
                continue
            ka = ["task", a["task"], "start" if a["type"] == "TaskUnloadBuffer" else "end"]
            kb = ["task", b["task"], "start" if b["type"] == "TaskUnloadBuffer" else "end"]
            out.append([{"lhs": ka, "op": "==", "rhs": {"var": kb, "plus": 0}}])
    return out[:4]


def nontrivial(spec, sched, vd):
    for b in spec["buffers"]:
        ev = ref.buffer_events(spec, vd.view, b["name"])
        if len(ev) < 2:
            continue
        decl = [c["task"] for c in spec["constraints"] if c["type"] in ("TaskUnloadBuffer", "TaskLoadBuffer") and c["buffer"] == b["name"] and vd.view.sch(c["task"])]
        order = [t for _, _, t in ev]
        ties = len(set(t for t, _, _ in ev)) < len(ev)
        prof = (vd.derived.get("buffers") or {}).get(b["name"])
        attained = prof is not None and ((b.get("lower") is not None and min(prof["levels"]) == b["lower"]) or (b.get("upper") is not None and max(prof["levels"]) == b["upper"]))
        if order != decl or ties or attained:
            return True
    return False


def prop(ctx, case):
    spec, seed = case["spec"], case["seed"]
    if not spec["buffers"]:
        return
    ex = engine.Explorer(ctx, spec, seed)
    if ex.sess is None:
        return
    for cl in engine.classes_of(spec):
        ctx.event("has:" + cl)
    pins = list(case["pins"]) + tie_pins(spec)
    for origin, sched, model in ex.schedules(pins, enum_cap=0, extremal=1):
        if model is None:
            continue
        ctx.evaluation()
        try:
            sol = ex.sess.h.solver.build_solution(model)
        except Exception as exc:
            ctx.violation({"check": "C09.soundness", "rule": "build_solution_raised", "spec": spec, "seed": seed,
                           "probe": {"kind": "admitted_schedule", "origin": origin, "schedule": engine.to_candidate(spec, sched)},
                           "observed": repr(exc), "signature": {"rule": "build_solution_raised", "classes": engine.classes_of(spec)}})
            continue
        reported = {bn: {"levels": list(bs.level), "times": list(bs.level_change_times)} for bn, bs in sol.buffers.items()}
        vd = ref.judge(spec, sched, reported_buffers=reported)
        bad = vd.bad(FAMILIES)
        if bad:
            f0 = bad[0]
            ctx.violation({"check": "C09.soundness", "rule": f"{f0[0]}:{f0[1]}", "spec": spec, "seed": seed,
                           "probe": {"kind": "admitted_schedule", "origin": origin, "schedule": engine.to_candidate(spec, sched)},
                           "observed": engine.summarize_bad(bad), "signature": {"rule": f"{f0[0]}:{f0[1]}", "classes": engine.classes_of(spec)}})
            continue
        if nontrivial(spec, sched, vd):
            ctx.nontrivial_case({"spec": spec, "sched": engine.to_candidate(spec, sched)})
            ctx.event("nontrivial_" + ("tie" if any(len(set(t for t, _, _ in ref.buffer_events(spec, vd.view, b["name"]))) < len(ref.buffer_events(spec, vd.view, b["name"])) for b in spec["buffers"]) else "order_or_bound"))
            ctx.sample({"spec": spec, "schedule": engine.to_candidate(spec, sched), "reported": reported}, cap=3)


def prop_complete(ctx, case):
    from .. import known
    if not case["spec"]["buffers"]:
        return
    cands.completeness_case(ctx, case, "C09.completeness", enum_cap=1200, sig_extra=lambda spec, c: known.features(spec, c))


def run_shard(ctx):
    n = {"quick": 60, "thorough": 700}[ctx.tier]
    for prof in PROFILES:
        run_hypothesis(ctx, S.spec_with_pins(prof, n_sets=4), prop, max_examples=n)
    nc = {"quick": 25, "thorough": 300}[ctx.tier]
    prof = S.profile(min_tasks=2, max_tasks=3, p_resources=0, task_constraints=(0, 1), optional_rules=(0, 0), resource_constraints=(0, 0), buffers=(1, 1), horizon=(2, 5), p_no_horizon=0, p_release=10, p_due=10)
    run_hypothesis(ctx, S.spec_with_pins(prof, n_sets=2, n_cands=6), prop_complete, max_examples=nc)


def replay(record):
    if record.get("check") == "C09.completeness":
        return cands.replay_completeness(record)
    spec, seed = record["spec"], record.get("seed", 0)
    sess = probe.Session(spec, seed)
    st, sched, m = sess.admitted(record["probe"]["schedule"])
    if st != "sat":
        return False, f"recorded schedule is no longer admitted ({st})"
    sol = sess.h.solver.build_solution(m)
    reported = {bn: {"levels": list(bs.level), "times": list(bs.level_change_times)} for bn, bs in sol.buffers.items()}
    vd = ref.judge(spec, sched, reported_buffers=reported)
    bad = vd.bad(FAMILIES)
    return (True, engine.summarize_bad(bad)) if bad else (False, "admitted and consistent")
