"""C10 - logical combinations and optional constraints mean what their connective says."""
from .. import cands, engine, known, probe, ref, spec as S, build as B
from ..runner import run_hypothesis

ID = "C10"
FAMILIES = ("FOL", "TC", "OPT")
RULE = (
    "generated formulas of depth <= 3 over not/and/or/xor/implies/if-then-else whose leaves are built-in task constraints and "
    "raw comparisons over task variables, plus 0-3 top-level optional constraints with ForceApplyNOptionalConstraints of every "
    "kind/count - also used as an operand of a connective (applied flags shared by all rules, searched jointly by the reference) - and "
    "ConstraintFromExpression over generated ASTs, on 1-3 tasks and horizons <= 5. The complete candidate box is "
    "enumerated: every candidate the truth-functional reference judges VALID must be admitted (sat when pinned), every candidate it "
    "judges INVALID must be rejected (unsat) - so a leaked stand-alone operand and a wrong connective are both visible; applied "
    "flags read from steered models: applied => holds, count obeys the force-apply rule. Non-trivial = the formula is neither a "
    "tautology nor a contradiction on the box (both VALID and INVALID candidates exist); distinct by SHA-1 of the spec."
)
ASSUMPTIONS = [
    "z3 answers trusted; reference truth tables in vf/ref.py; an operand naming an unscheduled optional task is unspecified",
    "leaves owning auxiliary unknowns (contiguity, groups, N-in-intervals) are generated in a separate, separately counted class",
]
TECHNIQUE = "grammar-generated formulas; exhaustive candidate box vs truth-functional reference, both directions"

SIMPLE = S.profile(min_tasks=1, max_tasks=3, horizon=(2, 5), p_no_horizon=0, p_resources=0, task_constraints=(0, 1), optional_rules=(0, 0), resource_constraints=(0, 0),
                   fol=(1, 2), fol_depth=3, optional_constraints=0, p_optional=15, p_release=10, p_due=10, p_shared_operand=25)
OPTC = S.profile(min_tasks=1, max_tasks=3, horizon=(2, 5), p_no_horizon=0, p_resources=0, task_constraints=(1, 3), optional_rules=(0, 0), resource_constraints=(0, 0),
                 fol=(0, 1), fol_depth=2, optional_constraints=55, p_optional=10, p_release=10, p_due=10, p_nested_force_apply=35)
AUX_LEAVES = S.SIMPLE_LEAVES + ["TasksContiguous", "UnorderedTaskGroup", "OrderedTaskGroup", "ScheduleNTasksInTimeIntervals"]
AUX = S.profile(min_tasks=2, max_tasks=3, horizon=(2, 5), p_no_horizon=0, p_resources=0, task_constraints=(0, 0), optional_rules=(0, 0), resource_constraints=(0, 0),
                fol=(1, 1), fol_depth=2, fol_leaves=AUX_LEAVES, optional_constraints=0, p_optional=0, p_release=0, p_due=0)


def has_aux_under_negation(c, neg=False):
    """a leaf owning auxiliary unknowns used where its truth value matters negatively"""
    if "op" in c or "ref" in c:
        return False
    ty = c["type"]
    if ty in ("TasksContiguous", "UnorderedTaskGroup", "OrderedTaskGroup", "ScheduleNTasksInTimeIntervals"):
        return neg
    if ty == "Not":
        return has_aux_under_negation(c["c"], True)
    if ty == "Xor":
        return has_aux_under_negation(c["c1"], True) or has_aux_under_negation(c["c2"], True)
    out = False
    for k in ("cs", "then", "else"):
        for x in c.get(k) or []:
            if isinstance(x, dict):
                out = out or has_aux_under_negation(x, neg)
    return out


def box_case(ctx, case, check_name, cls):
    spec, seed = case["spec"], case["seed"]
    try:
        sess = probe.Session(spec, seed)
    except B.BuildRejected as exc:
        ctx.event(f"build_rejected:{exc.stage}:{type(exc.exc).__name__}")
        return
    for cl in engine.classes_of(spec):
        ctx.event("has:" + cl)
    gen, exhaustive = cands.all_candidates(spec, cap=1200)
    if not exhaustive:
        ctx.event("box_too_large")
        return
    ctx.event(cls + "_boxes")
    n_valid = n_invalid = n_unspec = 0
    feats = known.features(spec)
    feats["aux_leaf_under_negation"] = any(has_aux_under_negation(c) for c in spec["constraints"])
    for c in gen:
        vd = ref.judge(spec, c, from_model=False)
        st = vd.status()
        if st == "UNSPECIFIED":
            n_unspec += 1
            continue
        ctx.evaluation()
        res, _, _ = sess.admitted(c)
        if res == "unknown":
            ctx.inconclusive += 1
            continue
        if st == "VALID":
            n_valid += 1
            if res == "unsat":
                ctx.violation({"check": check_name, "rule": "valid_schedule_rejected", "spec": spec, "seed": seed,
                               "probe": {"kind": "candidate", "schedule": c}, "observed": "formula true on this schedule, yet the schedule is rejected",
                               "signature": {"rule": "valid_schedule_rejected", "classes": engine.classes_of(spec), **feats}})
        else:
            n_invalid += 1
            bad = vd.bad()
            only_logic = all(b[0] in FAMILIES for b in bad)
            if res == "sat" and only_logic:
                ctx.violation({"check": check_name, "rule": "invalid_schedule_admitted", "spec": spec, "seed": seed,
                               "probe": {"kind": "candidate", "schedule": c}, "observed": engine.summarize_bad(bad),
                               "signature": {"rule": "invalid_schedule_admitted", "classes": engine.classes_of(spec), **feats}})
    ctx.event("box_unspecified_candidates", n_unspec)
    if n_valid and n_invalid:
        ctx.nontrivial_case({"spec": spec})
        ctx.event(cls + "_nontrivial")
        ctx.sample({"spec": spec, "n_valid": n_valid, "n_invalid": n_invalid, "n_unspecified": n_unspec}, cap=3)


def prop_simple(ctx, case):
    box_case(ctx, case, "C10.box", "simple")


def prop_aux(ctx, case):
    box_case(ctx, case, "C10.box", "aux")


def prop_optional(ctx, case):
    # applied flags come from models: soundness engine (applied => holds, count rule) ...
    engine.soundness_case(ctx, case, FAMILIES, "C10.soundness", require_binding=False,
                          extra_nt=lambda spec, sched: any(c.get("optional") for c in spec["constraints"]) and any(sched.get("applied", {}).values()) if False else any(c.get("optional") for c in spec["constraints"]))
    # ... and the box for the completeness direction (an optional constraint may be left unapplied)
    box_case(ctx, case, "C10.box", "optional")


def run_shard(ctx):
    q = ctx.tier == "quick"
    run_hypothesis(ctx, S.spec_with_pins(SIMPLE, n_sets=0), prop_simple, max_examples=70 if q else 800)
    run_hypothesis(ctx, S.spec_with_pins(OPTC, n_sets=4), prop_optional, max_examples=40 if q else 450)
    run_hypothesis(ctx, S.spec_with_pins(AUX, n_sets=0), prop_aux, max_examples=25 if q else 300)


def replay(record):
    if record.get("check") == "C10.soundness":
        return engine.replay_soundness(record, FAMILIES)
    spec, seed, c = record["spec"], record.get("seed", 0), record["probe"]["schedule"]
    vd = ref.judge(spec, c, from_model=False)
    sess = probe.Session(spec, seed)
    res, _, _ = sess.admitted(c)
    if record["rule"] == "valid_schedule_rejected":
        return (vd.status() == "VALID" and res == "unsat"), f"reference {vd.status()}, encoder {res}"
    return (vd.status() == "INVALID" and res == "sat"), f"reference {vd.status()}, encoder {res}"
