"""C11 - the solution object is a faithful, self-consistent report of one schedule."""
from datetime import datetime, timedelta

from .. import engine, probe, ref, spec as S, build as B
from ..runner import run_hypothesis

ID = "C11"
RULE = (
    "generated mixed problems (resources, selections, cumulative workers, optional and zero-duration tasks, delay_in/early_out, "
    "dynamic assignments; delta_time/start_time set in half of the cases) x solutions obtained from the public solve() and from "
    "build_solution(model) on steered / extremal models. Each SchedulingSolution is compared (i) with the raw model values read "
    "independently (start, end, duration, scheduled, horizon) and (ii) with itself: end - start = duration, r in "
    "t.assigned_resources <=> resources[r] lists an assignment for t, assignment interval = the one the requirement implies, "
    "cumulative workers under their own name only, unscheduled => no assignment, horizon >= every end, calendar times = "
    "start_time + integer time x delta_time. Non-trivial = the solution has a resource and (an optional task or a cumulative "
    "worker or calendar times) and is not the default model; distinct by SHA-1 of (spec, schedule)."
)
ASSUMPTIONS = [
    "vf/adapter.py reads the raw model values (task variables, busy intervals, selection flags) correctly",
    "expected assignment intervals follow docs/resource_assignment.md (W3 of vf/ref.py)",
]
TECHNIQUE = "Hypothesis-generated problems and steered models; differential (report vs raw model) + internal-consistency invariants"

PROFILES = [
    S.profile(min_tasks=1, max_tasks=4, p_resources=85, task_constraints=(0, 1), optional_rules=(0, 1), resource_constraints=(0, 0), buffers=(0, 1), indicators=(0, 1), p_delay=30, p_dynamic=25, p_cumulative=45, p_optional=40),
]
T0 = "2024-03-01T08:00:00"


def check_solution(spec, sched, sol):
    """-> list of (rule, detail)"""
    bad = []
    v = ref.View(spec, sched)
    tspec = {t["name"]: t for t in spec["tasks"]}
    # (i) report = raw model
    if set(sol.tasks) != set(tspec):
        bad.append(("task_set", [sorted(sol.tasks), sorted(tspec)]))
        return bad
    for n, t in tspec.items():
        ts = sol.tasks[n]
        raw = sched["tasks"][n]
        if ts.scheduled != raw["scheduled"]:
            bad.append(("scheduled_flag", [n, ts.scheduled, raw["scheduled"]]))
        if raw["scheduled"]:
            if ts.start != raw["start"] or ts.end != raw["end"]:
                bad.append(("task_times", [n, ts.start, ts.end, raw["start"], raw["end"]]))
            exp_d = v.dur(n)
            if ts.duration != exp_d:
                bad.append(("task_duration", [n, ts.duration, exp_d]))
            # (ii) self consistency
            if ts.end - ts.start != ts.duration:
                bad.append(("end_minus_start_is_duration", [n, ts.start, ts.end, ts.duration]))
            if sol.horizon < ts.end:
                bad.append(("horizon_ge_end", [n, ts.end, sol.horizon]))
        if ts.optional != t["optional"]:
            bad.append(("optional_flag", [n]))
    if spec.get("horizon") is None and sol.horizon != sched["horizon"]:
        bad.append(("horizon_value", [sol.horizon, sched["horizon"]]))
    if spec.get("horizon") is not None and sol.horizon != spec["horizon"]:
        bad.append(("horizon_value", [sol.horizon, spec["horizon"]]))
    # expected assignments from the raw schedule
    eff = ref.View(spec, engine.to_candidate(spec, sched)).effective()  # intervals implied by the requirements
    exp = {r: sorted((tn, bs, be) for tn, bs, be, _ in lst) for r, lst in eff.items()}
    names = set(exp)
    if set(sol.resources) != names:
        bad.append(("resource_set", [sorted(sol.resources), sorted(names)]))
    for r in names & set(sol.resources):
        got = sorted((a[0], a[1], a[2]) for a in sol.resources[r].assignments)
        if got != exp[r]:
            bad.append(("assignments", [r, got, exp[r]]))
    for n in tspec:
        ts = sol.tasks[n]
        listed = sorted(r for r in sol.resources if any(a[0] == n for a in sol.resources[r].assignments))
        if sorted(ts.assigned_resources) != listed:
            bad.append(("assigned_resources_iff_assignment", [n, sorted(ts.assigned_resources), listed]))
        if not ts.scheduled and (ts.assigned_resources or listed):
            bad.append(("unscheduled_has_assignment", [n, list(ts.assigned_resources), listed]))
        if len(set(ts.assigned_resources)) != len(ts.assigned_resources):
            bad.append(("assigned_resources_duplicates", [n, list(ts.assigned_resources)]))
    # calendar times
    if spec.get("delta_time_s") is not None and spec.get("start_time") is not None:
        delta = timedelta(seconds=spec["delta_time_s"])
        t0 = datetime.fromisoformat(spec["start_time"])
        for n in tspec:
            ts = sol.tasks[n]
            if not ts.scheduled:
                continue
            if ts.start_time != t0 + ts.start * delta or ts.end_time != t0 + ts.end * delta or ts.duration_time != ts.duration * delta:
                bad.append(("calendar_times", [n, str(ts.start_time), str(ts.end_time), str(ts.duration_time)]))
    return bad


def nontrivial(spec, sol):
    if not sol.resources:
        return False
    return any(t["optional"] for t in spec["tasks"]) or bool(spec["cumulative"]) or spec.get("delta_time_s") is not None


def prop(ctx, case):
    spec, seed = case["spec"], case["seed"]
    if seed % 2 == 0:
        spec = dict(spec, delta_time_s=[60, 900, 3600][seed % 3], start_time=T0)
        if seed % 4 == 0:
            # the optional (documented, otherwise unspecified) end_time of the problem, a few periods after its start
            k = 2 + (seed // 4) % 5
            spec["end_time"] = (datetime.fromisoformat(T0) + k * timedelta(seconds=spec["delta_time_s"])).isoformat()
    ex = engine.Explorer(ctx, spec, seed)
    if ex.sess is None:
        return
    for cl in engine.classes_of(spec):
        ctx.event("has:" + cl)
    for origin, sched, model in ex.schedules(case["pins"], enum_cap=0, extremal=2):
        if model is None:
            continue
        ctx.evaluation()
        try:
            sol = ex.sess.h.solver.build_solution(model)
        except Exception as exc:
            ctx.violation({"check": "C11.report", "rule": "build_solution_raised", "spec": spec, "seed": seed,
                           "probe": {"kind": "admitted_schedule", "origin": origin, "schedule": engine.to_candidate(spec, sched)},
                           "observed": repr(exc), "signature": {"rule": "build_solution_raised", "classes": engine.classes_of(spec)}})
            continue
        bad = check_solution(spec, sched, sol)
        if bad:
            ctx.violation({"check": "C11.report", "rule": bad[0][0], "spec": spec, "seed": seed,
                           "probe": {"kind": "admitted_schedule", "origin": origin, "schedule": engine.to_candidate(spec, sched)},
                           "observed": bad[:4], "signature": {"rule": bad[0][0], "classes": engine.classes_of(spec)}})
            continue
        if origin != "default" and nontrivial(spec, sol):
            ctx.nontrivial_case({"spec": spec, "sched": engine.to_candidate(spec, sched)})
            ctx.sample({"spec": spec, "schedule": engine.to_candidate(spec, sched)}, cap=2)
    # the public path once per spec
    if seed % 4 == 0:
        h, sol, exc = probe.solve_public(spec, seed)
        ctx.evaluation()
        if exc is not None:
            ctx.violation({"check": "C11.public", "rule": "solve_raised", "spec": spec, "seed": seed, "probe": {"kind": "public_solve"},
                           "observed": repr(exc), "signature": {"rule": "solve_raised", "classes": engine.classes_of(spec)}})
        elif sol:
            from .. import adapter
            sched = adapter.read_schedule(h, h.solver._model)
            bad = check_solution(spec, sched, sol)
            if bad:
                ctx.violation({"check": "C11.public", "rule": bad[0][0], "spec": spec, "seed": seed, "probe": {"kind": "public_solve"},
                               "observed": bad[:4], "signature": {"rule": bad[0][0], "classes": engine.classes_of(spec)}})


def run_shard(ctx):
    n = {"quick": 110, "thorough": 1200}[ctx.tier]
    for prof in PROFILES:
        run_hypothesis(ctx, S.spec_with_pins(prof, n_sets=5), prop, max_examples=n)


def replay(record):
    spec, seed = record["spec"], record.get("seed", 0)
    if record.get("check") == "C11.public":
        h, sol, exc = probe.solve_public(spec, seed)
        if exc is not None:
            return True, repr(exc)
        if not sol:
            return False, "no solution"
        from .. import adapter
        bad = check_solution(spec, adapter.read_schedule(h, h.solver._model), sol)
        return (True, bad[:4]) if bad else (False, "consistent")
    sess = probe.Session(spec, seed)
    st, sched, m = sess.admitted(record["probe"]["schedule"])
    if st != "sat":
        return False, f"recorded schedule no longer admitted ({st})"
    try:
        sol = sess.h.solver.build_solution(m)
    except Exception as exc:
        return True, repr(exc)
    bad = check_solution(spec, sched, sol)
    return (True, bad[:4]) if bad else (False, "consistent")
