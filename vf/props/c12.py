"""C12 - asking for another solution enumerates distinct valid schedules, exhaustively."""
import z3
from hypothesis import strategies as st

from .. import adapter, build as B, engine, probe, ref, spec as S
from ..runner import run_hypothesis

ID = "C12"
RULE = (
    "generated small bounded problems (1-3 tasks, horizon <= 4, with/without optional tasks, resources and constraints) x generated "
    "call histories solve, then up to 40 calls drawn from find_another_solution() / find_another_solution_for_variable(v) (v among "
    "task starts/ends/durations), executed on one solver. Model: the set V of distinct valid timings (projection on "
    "start/end/scheduled of every task) enumerated by blocking clauses on an independent fresh solver and cross-checked by the "
    "reference, plus the list of exclusions the history accumulated. Invariants after every call: result is valid, differs from "
    "every earlier result, honours every earlier 'variable != value' request, False only if no member of V consistent with the "
    "history remains; all-find_another histories run to exhaustion visit V exactly once each. A second stratum makes the first solve an "
    "optimisation (incremental optimiser, objective over an indicator with declared bounds, makespan) before the same enumeration. Non-trivial = |V| >= 3 and the "
    "history reaches exhaustion or >= 3 distinct solutions; distinct by SHA-1 of (spec, history)."
)
ASSUMPTIONS = [
    "z3 answers trusted; the ground-truth set V comes from an independent solver instance built from the same spec and is cross-checked by the reference rules",
    "the solver's current model is read through vf/adapter.py (solver._model)",
]
TECHNIQUE = "model-based testing of call histories (Hypothesis-generated operation sequences) against an enumerated ground-truth set"

PROFILE = S.profile(min_tasks=1, max_tasks=3, horizon=(2, 4), p_no_horizon=0, p_resources=45, task_constraints=(0, 2), optional_rules=(0, 1), resource_constraints=(0, 1),
                    p_optional=35, p_release=15, p_due=15, p_work_amount=10)


# the first solve() is an optimisation (default incremental optimiser) whose objective is an indicator with declared
# bounds: the optimiser leaves its loop early when the bound is reached; the enumeration that follows is judged as usual
PROFILE_OBJ = S.profile(min_tasks=1, max_tasks=3, horizon=(2, 4), p_no_horizon=0, p_resources=60, task_constraints=(0, 1), optional_rules=(0, 0), resource_constraints=(0, 0),
                        indicators=(1, 2), indicator_types=["FromMathExpression", "FromMathExpression", "ResourceUtilization"], p_indicator_bounds=90, objectives=(1, 1),
                        only_objectives=["MaximizeIndicator", "MinimizeIndicator", "MaximizeResourceUtilization", "MinimizeMakespan"], p_weight_zero=0, p_optional=30,
                        p_release=10, p_due=10, p_work_amount=5, p_cumulative=0, p_select=20)


@st.composite
def cases(draw, prof=None):
    spec = draw(S.specs(prof or PROFILE))
    keys = []
    for t in spec["tasks"]:
        keys += [["task", t["name"], "start"], ["task", t["name"], "end"]]
        if t["kind"] == "var":
            keys.append(["task", t["name"], "duration"])
    if draw(st.integers(0, 99)) < 45:
        ops = [["another"]] * 60
    else:
        ops = draw(st.lists(st.one_of(st.just(["another"]), st.sampled_from(keys).map(lambda k: ["var", k])), min_size=1, max_size=25))
    kw = {}
    if spec["objectives"] and draw(st.integers(0, 99)) < 40:
        kw = {"max_iter": draw(st.integers(1, 3))}  # the optimisation is cut short: the enumeration that follows is judged all the same
    if draw(st.integers(0, 99)) < 20:
        kw["debug"] = True  # tracked assertions (incremental optimiser or plain solver): the enumeration is the same
    return {"spec": spec, "ops": ops, "kw": kw, "seed": draw(st.integers(0, 2**30))}


def projection(sched):
    out = []
    for n in sorted(sched["tasks"]):
        r = sched["tasks"][n]
        if r["scheduled"]:
            out.append((n, True, r["start"], r["end"]))
        else:
            out.append((n, False, None, None))
    return tuple(out)


def ground_truth(spec, seed, cap=400):
    """all distinct timings on an independent solver; -> (set of projections, exhaustive)"""
    sess = probe.Session(spec, seed + 17)
    z = sess.z
    out = {}
    z.push()
    try:
        while len(out) < cap:
            r = z.check()
            if r == z3.unknown:
                return out, False
            if r == z3.unsat:
                return out, True
            m = z.model()
            sched = adapter.read_schedule(sess.h, m)
            out[projection(sched)] = sched
            block = []
            for n in sess.h.tasks:
                tv = adapter.task_vars(sess.h, n)
                rec = sched["tasks"][n]
                if "scheduled" in tv:
                    block.append(tv["scheduled"] != bool(rec["scheduled"]))
                    if rec["scheduled"]:
                        block.append(z3.And(tv["scheduled"], z3.Or(tv["start"] != rec["start"], tv["end"] != rec["end"])))
                else:
                    block.append(tv["start"] != rec["start"])
                    block.append(tv["end"] != rec["end"])
            z.add(z3.Or(block))
        return out, False
    finally:
        z.pop()


def value_of(proj_entry_map, key):
    n, attr = key[1], key[2]
    sch, s, e = proj_entry_map[n]
    if not sch:
        return None
    return {"start": s, "end": e, "duration": e - s}[attr]


def consistent(proj, exclusions):
    pm = {n: (sch, s, e) for n, sch, s, e in proj}
    for ex in exclusions:
        if ex[0] == "timing":
            if proj == ex[1]:
                return False
        else:
            v = value_of(pm, ex[1])
            if v is None:
                return None  # an unscheduled task's variable: parked value unknown to the model
            if v == ex[2]:
                return False
    return True


def run_history(ctx, case, check_name="C12.history"):
    spec, ops, seed = case["spec"], case["ops"], case["seed"]
    try:
        V, exhaustive = ground_truth(spec, seed)
        h = B.build(spec, seed, solver_kwargs=case.get("kw") or None)
    except B.BuildRejected as exc:
        ctx.event(f"build_rejected:{exc.stage}:{type(exc.exc).__name__}")
        return
    if not exhaustive:
        ctx.event("ground_truth_not_exhaustive")
        return
    # cross-check the ground truth by the reference
    for proj, sched in list(V.items())[:30]:
        if ref.judge(spec, sched).bad(("T", "W", "TC", "RC", "OPT")):
            ctx.event("ground_truth_member_invalid_by_reference")
    solver = h.solver

    def viol(rule, observed, step):
        ctx.violation({"check": check_name, "rule": rule, "spec": spec, "seed": seed, "ops": ops[: step + 1], "kw": case.get("kw") or {},
                       "probe": {"kind": "history", "step": step}, "observed": observed,
                       "signature": {"rule": rule, "classes": engine.classes_of(spec)}})

    try:
        sol = solver.solve()
    except Exception as exc:
        viol("solve_raised", repr(exc), -1)
        return
    ctx.evaluation()
    if not sol:
        if V:
            viol("solve_false_but_schedules_exist", len(V), -1)
        else:
            ctx.event("infeasible_problem")
        return
    returned = []
    exclusions = []
    cur = adapter.read_schedule(h, adapter._get(solver, "_model"))
    cur_proj = projection(cur)
    if cur_proj not in V:
        viol("returned_schedule_not_in_ground_truth", list(cur_proj), -1)
        return
    returned.append(cur_proj)
    only_another = True
    exhausted = False
    for step, op in enumerate(ops):
        ctx.evaluation()
        try:
            if op[0] == "another":
                exclusions.append(("timing", cur_proj))
                res = solver.find_another_solution()
            else:
                only_another = False
                tv = adapter.task_vars(h, op[1][1])
                if op[1][2] not in tv:
                    continue
                var = tv[op[1][2]]
                pm = {n: (sch, s, e) for n, sch, s, e in cur_proj}
                curval = value_of(pm, op[1])
                if curval is None:
                    raw = cur["tasks"][op[1][1]]
                    curval = raw[op[1][2]] if op[1][2] != "duration" else raw.get("duration")
                exclusions.append(("var", op[1], curval, not pm[op[1][1]][0]))
                res = solver.find_another_solution_for_variable(var)
        except Exception as exc:
            viol("find_another_raised", repr(exc), step)
            return
        if res is False or res is None:
            remaining = [p for p in V if p not in returned and consistent(p, [e[:3] for e in exclusions]) is True]
            if remaining:
                viol("false_but_schedules_remain", {"remaining": [list(p) for p in remaining[:3]], "returned": len(returned)}, step)
                return
            exhausted = True
            break
        nxt = adapter.read_schedule(h, adapter._get(solver, "_model"))
        nproj = projection(nxt)
        sproj = tuple((n, bool(res.tasks[n].scheduled), res.tasks[n].start if res.tasks[n].scheduled else None, res.tasks[n].end if res.tasks[n].scheduled else None) for n in sorted(res.tasks))
        if sproj != nproj:
            viol("returned_solution_is_not_the_current_model", {"solution": list(sproj), "model": list(nproj)}, step)
            return
        if nproj not in V:
            bad = ref.judge(spec, nxt).bad(("T", "W", "TC", "RC", "OPT"))
            viol("returned_schedule_not_valid", {"projection": list(nproj), "reference": engine.summarize_bad(bad)}, step)
            return
        if op[0] == "another" and nproj in returned:
            viol("repeated_schedule", {"projection": list(nproj), "at": returned.index(nproj)}, step)
            return
        if op[0] == "var":
            # the chosen variable must differ from its value in the solution that was current
            raw = nxt["tasks"][op[1][1]]
            newval = raw[op[1][2]] if op[1][2] != "duration" else (raw.get("duration") if raw.get("duration") is not None else raw["end"] - raw["start"])
            oldraw = cur["tasks"][op[1][1]]
            oldval = oldraw[op[1][2]] if op[1][2] != "duration" else (oldraw.get("duration") if oldraw.get("duration") is not None else oldraw["end"] - oldraw["start"])
            if newval == oldval:
                viol("variable_not_changed", {"key": op[1], "value": newval}, step)
                return
        # every earlier exclusion still honoured (for scheduled tasks)
        c = consistent(nproj, [e[:3] for e in exclusions if e[0] == "timing" or not e[3]])
        if c is False and nproj in returned:
            viol("exclusion_not_honoured", {"projection": list(nproj)}, step)
            return
        if nproj not in returned:
            returned.append(nproj)
        cur, cur_proj = nxt, nproj
    if only_another and exhausted:
        if set(returned) != set(V):
            viol("exhaustion_did_not_visit_every_timing", {"visited": len(set(returned)), "ground_truth": len(V)}, len(ops))
            return
        ctx.event("exhaustive_histories")
    if len(V) >= 3 and (exhausted or len(set(returned)) >= 3):
        ctx.nontrivial_case({"spec": spec, "ops": ops})
        ctx.event("nontrivial")
        ctx.sample({"spec": spec, "ops": ops[:8], "n_ops": len(ops), "ground_truth_size": len(V), "distinct_returned": len(set(returned)), "exhausted": exhausted}, cap=3)
    ctx.event("V_size_%s" % ("0" if not V else "1-2" if len(V) < 3 else "3-20" if len(V) <= 20 else "21+"))


def run_shard(ctx):
    n = {"quick": 140, "thorough": 1200}[ctx.tier]
    run_hypothesis(ctx, cases(), run_history, max_examples=n)
    run_hypothesis(ctx, cases(PROFILE_OBJ), run_history, max_examples=max(40, n // 3))


def replay(record):
    from ..runner import Ctx
    ctx = Ctx("C12", "quick", 0, 0, 1, collect=True)
    ctx.replaying = True
    run_history(ctx, {"spec": record["spec"], "ops": record["ops"], "kw": record.get("kw") or {}, "seed": record.get("seed", 0)})
    if ctx.violations:
        b, (sz, rec) = next(iter(ctx.violations.items()))
        return True, rec["observed"]
    return False, "history replayed without violation"
