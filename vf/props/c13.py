"""C13 - a solver object stays truthful across repeated and mixed calls."""
import os
import tempfile

from hypothesis import strategies as st

from .. import adapter, build as B, engine, env, probe, ref, spec as S
from ..runner import run_hypothesis
from . import c12

ID = "C13"
RULE = (
    "generated small bounded problems with and without objectives x generated histories of up to 12 public SchedulingSolver calls "
    "(initialize, export_to_smt2, solve, find_another_solution, find_another_solution_for_variable, "
    "get_parameters_description) on ONE solver instance, both optimisers and all priority modes, plus a stratum solve -> find_another* whose "
    "objective is an indicator with declared bounds (the incremental optimiser's early exit). Model: feasibility, optimum and "
    "the set of valid timings from fresh independent solvers + the reference; the exclusions accumulated by find_another calls. "
    "Invariants: a feasible problem never turns into False by repetition; every returned schedule is reference-valid; a repeated "
    "solve() returns the same optimum; find_another after an optimisation returns a valid schedule or fails only if none "
    "consistent with the history remains; export / parameter listing change nothing; Pareto mode: successive solves are valid and "
    "end with False. Non-trivial = the history holds >= 2 result-producing calls, at least one after an optimisation or a "
    "repeated solve; distinct by SHA-1 of (spec, solver options, history)."
)
ASSUMPTIONS = [
    "z3 answers trusted; ground truth from independent solver instances built from the same spec",
    "a second explicit initialize() is not judged (documented nowhere); the machine stops there",
]
TECHNIQUE = "model-based testing of call histories (Hypothesis-generated operation sequences) with after-every-step invariants"

PROFILE = S.profile(min_tasks=1, max_tasks=3, horizon=(2, 4), p_no_horizon=0, p_resources=45, task_constraints=(0, 2), optional_rules=(0, 1), resource_constraints=(0, 1),
                    indicators=(0, 1), objectives=(0, 2), p_optional=30, p_release=15, p_due=25, p_work_amount=10, p_cumulative=10)
VALID_FAMILIES = ("T", "W", "TC", "RC", "OPT", "BUF", "FOL")
OPS = ["solve", "solve", "another", "another", "var", "export", "params", "initialize"]


# an objective over an indicator that declares bounds (user indicator, resource utilisation): the incremental optimiser
# leaves its loop early when the bound is reached; the history goes on with requests for other solutions
PROFILE_BOUND = S.profile(min_tasks=1, max_tasks=3, horizon=(2, 4), p_no_horizon=0, p_resources=60, task_constraints=(0, 1), optional_rules=(0, 0), resource_constraints=(0, 0),
                          indicators=(1, 2), indicator_types=["FromMathExpression", "FromMathExpression", "ResourceUtilization"], p_indicator_bounds=90, objectives=(1, 1),
                          only_objectives=["MaximizeIndicator", "MinimizeIndicator", "MaximizeResourceUtilization"], p_weight_zero=0, p_optional=25, p_release=10, p_due=10,
                          p_work_amount=5, p_cumulative=0, p_select=20)


@st.composite
def cases(draw, bound_stratum=False):
    spec = draw(S.specs(PROFILE_BOUND if bound_stratum else PROFILE))
    if bound_stratum:
        keys = [["task", t["name"], a] for t in spec["tasks"] for a in ("start", "end")]
        ops = [["solve"]]
        for _ in range(draw(st.integers(2, 10))):
            o = draw(st.sampled_from(["another", "another", "another", "var", "solve"]))
            ops.append([o, draw(st.sampled_from(keys))] if o == "var" else [o])
        return {"spec": spec, "ops": ops, "kw": {"optimizer": "incremental"} if spec["objectives"] else {}, "seed": draw(st.integers(0, 2**30))}
    keys = []
    for t in spec["tasks"]:
        keys += [["task", t["name"], "start"], ["task", t["name"], "end"]]
    ops = []
    for _ in range(draw(st.integers(2, 12))):
        o = draw(st.sampled_from(OPS))
        ops.append([o, draw(st.sampled_from(keys))] if o == "var" else [o])
    kw = {}
    if spec["objectives"]:
        kw["optimizer"] = draw(st.sampled_from(["incremental", "incremental", "optimize"]))
        if kw["optimizer"] == "optimize":
            kw["optimize_priority"] = draw(st.sampled_from(["lex", "box", "weight", "pareto"]))
        elif draw(st.integers(0, 99)) < 40:
            kw["max_iter"] = draw(st.integers(1, 3))  # the optimisation is cut short: later calls must still be truthful
    return {"spec": spec, "ops": ops, "kw": kw, "seed": draw(st.integers(0, 2**30))}


def objective_value(h):
    obj = adapter._get(h.solver, "_objective")
    if obj is None:
        return None
    m = adapter._get(h.solver, "_model")
    return m.eval(adapter._get(obj, "_target"), model_completion=True).as_long()


def run_history(ctx, case):
    spec, ops, kw, seed = case["spec"], case["ops"], case["kw"], case["seed"]
    kinds = {ref.objective_kind(o) for o in spec["objectives"]}
    if len(kinds) > 1:
        return
    try:
        V, exhaustive = c12.ground_truth(spec, seed)
        h = B.build(spec, seed, solver_kwargs=kw)
    except B.BuildRejected as exc:
        ctx.event(f"build_rejected:{exc.stage}:{type(exc.exc).__name__}")
        return
    if not exhaustive:
        ctx.event("ground_truth_not_exhaustive")
        return
    solver = h.solver
    # z3's pareto AND box modes answer successive check() calls with sat ... unsat cycles (measured on
    # z3 4.12.6: box with two objectives gives sat, sat, unsat, sat, ...); both are treated as 'walks'
    pareto = kw.get("optimize_priority") in ("pareto", "box") and kw.get("optimizer") == "optimize" and len(spec["objectives"]) > 1
    single_opt = bool(spec["objectives"]) and not pareto and not (kw.get("optimizer") == "optimize" and len(spec["objectives"]) > 1 and kw.get("optimize_priority") in ("lex", "box"))
    ctx.event("mode:" + ("pareto" if pareto else kw.get("optimizer", "satisfiability") if spec["objectives"] else "satisfiability"))
    if "max_iter" in kw:
        ctx.event("mode:incremental_with_max_iter")

    def viol(rule, observed, step):
        ctx.violation({"check": "C13.history", "rule": rule, "spec": spec, "seed": seed, "ops": ops[: step + 1], "kw": kw,
                       "probe": {"kind": "history", "step": step}, "observed": observed,
                       "signature": {"rule": rule, "classes": engine.classes_of(spec), "mode": kw.get("optimizer", "sat")}})

    exclusions = []
    returned = []
    have_model = False
    cur_proj = None
    cur = None
    n_results = 0
    optimum = None
    after_opt = False
    tmpdir = None
    initialized = False
    pareto_done = False
    cut_short = False
    try:
        for step, op in enumerate(ops):
            name = op[0]
            ctx.evaluation()
            try:
                if name == "initialize":
                    if initialized:
                        ctx.event("second_initialize_not_judged")
                        break
                    solver.initialize()
                    initialized = True
                    continue
                if name == "export":
                    if kw.get("optimizer") == "optimize" and spec["objectives"]:
                        continue  # exporting a z3.Optimize instance is C16's subject
                    tmpdir = tmpdir or tempfile.mkdtemp(prefix="vf_c13_")
                    solver.export_to_smt2(os.path.join(tmpdir, "p.smt2"))
                    initialized = True
                    continue
                if name == "params":
                    if not initialized:
                        continue
                    solver.get_parameters_description()
                    continue
                if name in ("another", "var") and not have_model:
                    continue  # documented precondition: first call solve()
                if name == "solve":
                    with env.collect_prints() as printed:
                        res = solver.solve()
                        if any(a and isinstance(a[0], str) and ("Max time" in a[0] or ("Reason:" in a[0] and "Unsatisfiable" not in a[0])) for a in printed):
                            cut_short = True  # the optimiser left its loop on its (real-clock) time limit or on a z3 'unknown'
                    initialized = True
                elif name == "another":
                    exclusions.append(("timing", cur_proj))
                    res = solver.find_another_solution()
                else:
                    tv = adapter.task_vars(h, op[1][1])
                    pm = {n: (sch, s, e) for n, sch, s, e in cur_proj}
                    curval = c12.value_of(pm, op[1])
                    if curval is None:
                        curval = cur["tasks"][op[1][1]][op[1][2]]
                    exclusions.append(("var", op[1], curval, not pm[op[1][1]][0]))
                    res = solver.find_another_solution_for_variable(tv[op[1][2]])
            except Exception as exc:
                viol(name + "_raised", repr(exc), step)
                return
            remaining = [p for p in V if c12.consistent(p, [e[:3] for e in exclusions]) is True]
            maybe = [p for p in V if c12.consistent(p, [e[:3] for e in exclusions]) is not False]
            if res is False or res is None:
                if pareto and name == "solve" and have_model:
                    pareto_done = True
                    ctx.event("pareto_front_exhausted")
                    continue
                if remaining:
                    viol("false_although_valid_schedules_remain", {"call": name, "remaining": [list(p) for p in remaining[:2]], "ground_truth": len(V)}, step)
                    return
                if name == "solve" and not exclusions and V:
                    viol("feasible_problem_reported_infeasible", {"ground_truth": len(V)}, step)
                    return
                continue
            n_results += 1
            if pareto_done:
                ctx.event("pareto_solution_after_exhaustion")
            nxt = adapter.read_schedule(h, adapter._get(solver, "_model"))
            nproj = c12.projection(nxt)
            if nproj not in V:
                bad = ref.judge(spec, nxt).bad(VALID_FAMILIES)
                viol("returned_schedule_not_valid", {"call": name, "projection": list(nproj), "reference": engine.summarize_bad(bad)}, step)
                return
            if c12.consistent(nproj, [e[:3] for e in exclusions if e[0] == "timing" or not e[3]]) is False:
                viol("returned_schedule_ignores_an_earlier_request", {"call": name, "projection": list(nproj)}, step)
                return
            if name == "solve" and single_opt and not exclusions and kw.get("optimizer") != "optimize" and "max_iter" not in kw and not cut_short:
                # (the built-in z3 optimiser is not judged for optimality: it returns non-optimal models, DESIGN.md section 5)
                val = objective_value(h)
                if optimum is None:
                    optimum = val
                    # optimum against an independent solver
                    sess = probe.Session(spec, seed + 5, {"optimizer": "incremental"})
                    kind = kinds and next(iter(kinds))
                    tvar = adapter._get(adapter._get(sess.h.solver, "_objective"), "_target")
                    st_, _, _ = sess.check([tvar < val] if kind == "minimize" else [tvar > val], extras=False)
                    if st_ == "sat":
                        viol("first_solve_not_optimal", {"value": val}, step)
                        return
                elif val != optimum:
                    viol("repeated_solve_changes_the_optimum", {"first": optimum, "now": val}, step)
                    return
                else:
                    after_opt = True
            if have_model and (spec["objectives"] or name != "solve"):
                after_opt = after_opt or bool(spec["objectives"])
            have_model = True
            cur, cur_proj = nxt, nproj
            returned.append(nproj)
    finally:
        if tmpdir:
            import shutil
            shutil.rmtree(tmpdir, ignore_errors=True)
    if n_results >= 2 and (after_opt or sum(1 for o in ops if o[0] == "solve") >= 2):
        ctx.nontrivial_case({"spec": spec, "ops": ops, "kw": kw})
        ctx.event("nontrivial")
        ctx.sample({"spec": spec, "solver": kw, "ops": ops, "results": n_results}, cap=3)


def run_shard(ctx):
    n = {"quick": 90, "thorough": 900}[ctx.tier]
    run_hypothesis(ctx, cases(), run_history, max_examples=n)
    run_hypothesis(ctx, cases(bound_stratum=True), run_history, max_examples=max(30, n // 2))


def replay(record):
    from ..runner import Ctx
    ctx = Ctx("C13", "quick", 0, 0, 1, collect=True)
    ctx.replaying = True
    run_history(ctx, {"spec": record["spec"], "ops": record["ops"], "kw": record.get("kw", {}), "seed": record.get("seed", 0)})
    if ctx.violations:
        b, (sz, rec) = next(iter(ctx.violations.items()))
        return True, {"rule": rec["rule"], "observed": rec["observed"]}
    return False, "history replayed without violation"
