"""C14 - meaning is independent of names, declaration order and earlier problems."""
import copy

from hypothesis import strategies as st

from .. import adapter, build as B, engine, env, probe, ref, spec as S
from ..runner import run_hypothesis, digest

ID = "C14"
RULE = (
    "generated problem + generated name bijection (short/long/unicode/underscore/space-bearing collision-free names, incl. names "
    "swapped between elements and across kinds) + generated permutation inside each declaration stage (tasks, workers, "
    "selections, assignments, buffers, constraints, indicators) + a prefix of 0-2 unrelated problems built and solved first with "
    "non-default solver options. Oracle (implementation vs implementation): same feasibility verdict, same optimum, and "
    "cross-pinning - schedules admitted by the original (default, steered, extremal) mapped through the bijection are admitted "
    "by the twin and vice versa. Non-trivial = the bijection moves >= 2 names or the permutation moves >= 1 element, the problem "
    "has an optional task, a selection or a cumulative worker, and >= 1 schedule was cross-pinned; distinct by SHA-1."
)
ASSUMPTIONS = [
    "z3 answers trusted; 'unknown' is inconclusive",
    "names are pairwise distinct over the whole problem and avoid the library's reserved infix '_CumulativeWorker_'",
    "ForceApplyNOptionalConstraints stays declared after the constraints it names (a documented ordering requirement, like resource constraints after assignments)",
]
TECHNIQUE = "metamorphic testing (rename / permute / prefix) over Hypothesis-generated problems with cross-pinning of schedules"

PROFILE = S.profile(cond_mandatory_only=True, min_tasks=2, max_tasks=4, p_resources=70, task_constraints=(0, 2), optional_rules=(0, 1), resource_constraints=(0, 2), buffers=(0, 1),
                    indicators=(0, 1), objectives=(0, 1), p_optional=40, p_work_amount=15, p_cumulative=35, p_group_precedence=12)
# strata: (a) workers shared between direct assignments of optional tasks and selections, under sorting constraints (parking
# instants); (b) start-time objectives over optional tasks
PROFILE_PARK = S.profile(cond_mandatory_only=True, min_tasks=2, max_tasks=4, horizon=(3, 7), p_resources=100, n_workers=(2, 3), p_select=70, p_cumulative=10, task_constraints=(0, 1), optional_rules=(0, 0),
                         resource_constraints=(1, 2), focus=["ResourceNonDelay", "ResourceTasksDistance"], p_optional=65, p_work_amount=5)
PROFILE_STARTOBJ = S.profile(cond_mandatory_only=True, min_tasks=2, max_tasks=4, horizon=(3, 7), p_no_horizon=0, p_resources=40, task_constraints=(0, 2), optional_rules=(0, 1), resource_constraints=(0, 0),
                             objectives=(1, 1), only_objectives=["TasksStartLatest", "MinimizeGreatestStartTime"], p_optional=65)
PROFILE_WINDOWS = S.profile(cond_mandatory_only=True, min_tasks=2, max_tasks=4, horizon=(3, 7), p_resources=100, n_workers=(2, 3), p_select=15, p_cumulative=10, task_constraints=(0, 1), optional_rules=(0, 0),
                            resource_constraints=(2, 3), focus=["WorkLoad"], objectives=(0, 1), p_optional=25, p_work_amount=5, p_reuse_window=80,
                            exclude=("SameWorkers", "DistinctWorkers", "ResourceNonDelay", "ResourceTasksDistance", "ResourceInterrupted", "ResourcePeriodicallyInterrupted", "ResourcePeriodicallyUnavailable", "ResourceUnavailable"))
# elements that sort declaration-ordered lists (idle indicator, concurrent buffers) with >= 3 entries
PROFILE_SORT = S.profile(cond_mandatory_only=True, min_tasks=3, max_tasks=4, horizon=(4, 8), p_no_horizon=0, p_resources=100, n_workers=(1, 2), p_select=10, p_cumulative=0,
                         task_constraints=(0, 1), optional_rules=(0, 0), resource_constraints=(0, 0), buffers=(0, 1), indicators=(1, 2), indicator_types=["ResourceIdle", "ResourceIdle", "MaxBufferLevel"],
                         indicator_constraints=40, objectives=(0, 1), only_objectives=["MinimizeIndicator", "MaximizeIndicator"], p_optional=15, p_work_amount=0)
# constraints whose encoding loops over the tasks of a worker in declaration order and carries state from one task to the
# next (interruptions lengthening variable-duration tasks, periodic masks): several variable-duration tasks on one worker
PROFILE_CARRY = S.profile(cond_mandatory_only=True, min_tasks=2, max_tasks=3, horizon=(4, 9), p_no_horizon=0, p_resources=100, n_workers=(1, 1), p_select=0, p_cumulative=15,
                          task_kinds=("var",) * 4 + ("fixed",), task_constraints=(0, 1), optional_rules=(0, 0), resource_constraints=(1, 2),
                          focus=["ResourceInterrupted", "ResourceInterrupted", "ResourcePeriodicallyInterrupted", "WorkLoad"], objectives=(0, 1), only_objectives=["MinimizeMakespan", "MinimizeFlowtime"],
                          p_optional=15, p_work_amount=10, p_dynamic=0, p_delay=10,
                          exclude=("SameWorkers", "DistinctWorkers", "ResourceNonDelay", "ResourceTasksDistance"))
# several objectives of one direction (weighted sum, incremental optimiser), some over indicators with declared bounds: the
# optimum must not depend on the order in which objectives and indicators are declared
PROFILE_MULTIOBJ = S.profile(cond_mandatory_only=True, min_tasks=2, max_tasks=3, horizon=(3, 6), p_no_horizon=0, p_resources=50, n_workers=(1, 2), p_select=20, p_cumulative=0,
                             task_constraints=(0, 1), optional_rules=(0, 0), resource_constraints=(0, 0), indicators=(1, 3),
                             indicator_types=["FromMathExpression", "FromMathExpression", "ResourceUtilization", "Tardiness"], p_indicator_bounds=55, objectives=(2, 3),
                             objective_direction="max", only_objectives=["MaximizeIndicator", "MaximizeIndicator", "TasksStartLatest", "MaximizeResourceUtilization"],
                             p_optional=15, p_release=10, p_due=40, p_work_amount=0, p_weight_zero=5)
PREFIX_PROFILE = S.profile(cond_mandatory_only=True, min_tasks=1, max_tasks=3, p_resources=60, task_constraints=(0, 1), optional_rules=(0, 0), resource_constraints=(0, 1), objectives=(0, 1), p_optional=40)
NAME_POOL = ["a", "b", "x", "t", "A1", "Task", "task_1", "task_2", "W", "worker", "Ωmega", "tâche", "name with space", "a.b", "x_start", "x_end", "q" * 24,
             "T1", "T2", "T3", "W1", "W2", "K1", "S1", "B1", "c1", "z_busy", "_lead", "n-1", "0", "17", "Selected", "horizon2"]


def all_names(spec):
    out = []
    out += [("task", t["name"]) for t in spec["tasks"]]
    out += [("worker", w["name"]) for w in spec["workers"]]
    out += [("cumulative", c["name"]) for c in spec["cumulative"]]
    out += [("select", s["name"]) for s in spec["selects"]]
    out += [("buffer", b["name"]) for b in spec["buffers"]]
    return out


def _ren_expr(ast, m):
    if not isinstance(ast, dict):
        return ast
    out = dict(ast)
    if out.get("op") == "var":
        out["task"] = m["task"].get(out["task"], out["task"])
    for k in ("a", "b"):
        if isinstance(out.get(k), dict):
            out[k] = _ren_expr(out[k], m)
    if "args" in out:
        out["args"] = [_ren_expr(x, m) for x in out["args"]]
    return out


def _res_name(n, m):
    for kind in ("worker", "cumulative", "select"):
        if n in m[kind]:
            return m[kind][n]
    return n


def _ren_constraint(c, m):
    if "ref" in c:
        return dict(c)
    if "op" in c:
        return _ren_expr(c, m)
    out = dict(c)
    for k in ("task", "before", "after", "t1", "t2"):
        if k in out and isinstance(out[k], str):
            out[k] = m["task"].get(out[k], out[k])
    if "tasks" in out and out["tasks"] is not None:
        out["tasks"] = [m["task"].get(x, x) for x in out["tasks"]]
    if "buffer" in out:
        out["buffer"] = m["buffer"].get(out["buffer"], out["buffer"])
    if "res" in out:
        out["res"] = _res_name(out["res"], m)
    for k in ("s1", "s2"):
        if k in out:
            out[k] = m["select"].get(out[k], out[k])
    for k in ("cond", "expr"):
        if isinstance(out.get(k), dict):
            out[k] = _ren_expr(out[k], m)
    for k in ("c", "c1", "c2"):
        if isinstance(out.get(k), dict):
            out[k] = _ren_constraint(out[k], m)
    for k in ("cs", "then", "else"):
        if k in out:
            out[k] = [_ren_constraint(x, m) if isinstance(x, dict) else x for x in out[k]]
    return out


def rename(spec, m):
    """m: {kind: {old: new}}"""
    s = copy.deepcopy(spec)
    for t in s["tasks"]:
        t["name"] = m["task"].get(t["name"], t["name"])
    for w in s["workers"]:
        w["name"] = m["worker"].get(w["name"], w["name"])
    for c in s["cumulative"]:
        c["name"] = m["cumulative"].get(c["name"], c["name"])
    for x in s["selects"]:
        x["name"] = m["select"].get(x["name"], x["name"])
        x["workers"] = [_res_name(w, m) for w in x["workers"]]
    for a in s["assign"]:
        a["task"] = m["task"].get(a["task"], a["task"])
        a["res"] = _res_name(a["res"], m)
    for b in s["buffers"]:
        b["name"] = m["buffer"].get(b["name"], b["name"])
    s["constraints"] = [_ren_constraint(c, m) for c in s["constraints"]]
    for i in s["indicators"]:
        if i.get("tasks") is not None:
            i["tasks"] = [m["task"].get(x, x) for x in i["tasks"]]
        if "res" in i:
            i["res"] = _res_name(i["res"], m)
        if "ress" in i:
            i["ress"] = [_res_name(x, m) for x in i["ress"]]
        if "buffer" in i:
            i["buffer"] = m["buffer"].get(i["buffer"], i["buffer"])
        if isinstance(i.get("expr"), dict):
            i["expr"] = _ren_expr(i["expr"], m)
    for o in s["objectives"]:
        if o.get("tasks") is not None:
            o["tasks"] = [m["task"].get(x, x) for x in o["tasks"]]
        if "res" in o:
            o["res"] = _res_name(o["res"], m)
        if "ress" in o:
            o["ress"] = [_res_name(x, m) for x in o["ress"]]
        if "buffer" in o:
            o["buffer"] = m["buffer"].get(o["buffer"], o["buffer"])
    return s


def permute(spec, perms):
    """perms: {stage: permutation (list of indices)}; constraints keep ForceApply after its members"""
    s = copy.deepcopy(spec)
    for stage in ("tasks", "workers", "selects", "assign", "buffers", "indicators", "objectives"):
        p = perms.get(stage)
        if p and len(p) == len(s[stage]):
            s[stage] = [s[stage][i] for i in p]
    p = perms.get("constraints")
    if p and len(p) == len(s["constraints"]):
        cs = [s["constraints"][i] for i in p]
        late = ("GroupPrecedence", "ForceApplyNOptionalConstraints")  # declared after the constraints they name
        fa = [c for ty in late for c in cs if c["type"] == ty]
        rest = [c for c in cs if c["type"] not in late]
        s["constraints"] = rest + fa
    return s


@st.composite
def cases(draw, prof=None):
    spec = draw(S.specs(prof or PROFILE))
    names = all_names(spec)
    pool = [n for n in NAME_POOL]
    new = draw(st.lists(st.sampled_from(pool), min_size=len(names), max_size=len(names), unique=True))
    keep = draw(st.lists(st.booleans(), min_size=len(names), max_size=len(names)))
    m = {k: {} for k in ("task", "worker", "cumulative", "select", "buffer")}
    used = set()
    taken_old = {n for _, n in names}
    for (kind, old), nn, kp in zip(names, new, keep):
        if kp:
            m[kind][old] = old
            used.add(old)
    for (kind, old), nn, kp in zip(names, new, keep):
        if kp:
            continue
        cand = nn
        k = 0
        # distinct over the whole problem (also from kept names)
        while cand in used or (cand in taken_old and cand != old and any(m[kk].get(cand) == cand for kk in m)):
            k += 1
            cand = f"{nn}#{k}"
        m[kind][old] = cand
        used.add(cand)
    perms = {}
    for stage in ("tasks", "workers", "selects", "assign", "buffers", "constraints", "indicators", "objectives"):
        n = len(spec[stage])
        if n >= 2 and draw(st.integers(0, 99)) < 70:
            perms[stage] = list(draw(st.permutations(list(range(n)))))
    prefix = draw(st.lists(S.specs(PREFIX_PROFILE), min_size=0, max_size=2))
    pins = draw(S.pin_sets(spec, n_sets=4))
    return {"spec": spec, "map": m, "perms": perms, "prefix": prefix, "pins": pins, "seed": draw(st.integers(0, 2**30))}


def map_candidate(spec, twin, m, cand, inverse=False):
    """candidate of `spec` -> candidate of `twin` (names through m, assignment order by matching)"""
    mm = m
    if inverse:
        mm = {k: {v: kk for kk, v in d.items()} for k, d in m.items()}
    out = {"horizon": cand["horizon"], "tasks": {}, "assign": []}
    if "horizon_var" in cand:
        out["horizon_var"] = cand["horizon_var"]
    for n, r in cand["tasks"].items():
        out["tasks"][mm["task"].get(n, n)] = copy.deepcopy(r)
    src_assign = spec["assign"]
    keyed = {}
    for ai, a in enumerate(src_assign):
        keyed[(mm["task"].get(a["task"], a["task"]), _res_name(a["res"], mm))] = ai
    for a in twin["assign"]:
        ai = keyed[(a["task"], a["res"])]
        rec = cand["assign"][ai]
        new = {"chosen": None, "busy": {}}
        if rec.get("chosen") is not None:
            new["chosen"] = {_lane(w, mm): v for w, v in rec["chosen"].items()}
        for w, b in (rec.get("busy") or {}).items():
            new["busy"][_lane(w, mm)] = list(b)
        out["assign"].append(new)
    return out


def _lane(w, mm):
    if "_CumulativeWorker_" in w:
        base, idx = w.split("_CumulativeWorker_")
        return mm["cumulative"].get(base, base) + "_CumulativeWorker_" + idx
    return _res_name(w, mm)


def _delivered_profile(b):
    """level profile as delivered with a solution: one level per distinct instant, parking instants (< 0) left out"""
    levels, times = ref.dedup_reported(b["levels"], b["times"])
    out_l, out_t = [levels[0]], []
    for lv, tm in zip(levels[1:], times):
        if tm >= 0:
            out_l.append(lv)
            out_t.append(tm)
    return out_l, out_t


CUT_SHORT = []  # set by optimum(): the last run left its loop on the real-clock time limit or on a z3 'unknown'


def optimum(spec, seed):
    h = B.build(spec, seed, solver_kwargs={"optimizer": "incremental"})
    with env.collect_prints() as printed:
        sol = h.solver.solve()
        if any(a and isinstance(a[0], str) and ("Max time" in a[0] or ("Reason:" in a[0] and "Unsatisfiable" not in a[0])) for a in printed):
            CUT_SHORT.append(True)
    if not sol:
        return None
    obj = adapter._get(h.solver, "_objective")
    m = adapter._get(h.solver, "_model")
    return m.eval(adapter._get(obj, "_target"), model_completion=True).as_long()


def prop(ctx, case):
    spec, m, perms, seed = case["spec"], case["map"], case["perms"], case["seed"]
    twin = permute(rename(spec, m), perms)
    moved_names = sum(1 for d in m.values() for k, v in d.items() if k != v)
    moved_perm = sum(1 for p in perms.values() if p != sorted(p))

    def viol(rule, observed, extra=None):
        ctx.violation({"check": "C14.twin", "rule": rule, "spec": spec, "seed": seed, "map": m, "perms": perms, "prefix": case["prefix"],
                       "probe": dict({"kind": "twin"}, **(extra or {})), "observed": observed,
                       "signature": {"rule": rule, "classes": engine.classes_of(spec)}})

    try:
        sa = probe.Session(spec, seed)
    except B.BuildRejected as exc:
        ctx.event(f"build_rejected:{exc.stage}:{type(exc.exc).__name__}")
        return
    # earlier, unrelated problems (non default options) between the two builds
    for k, pspec in enumerate(case["prefix"]):
        try:
            kw = [{"random_values": True}, {"debug": True}, {"parallel": False, "random_values": True, "max_time": 5}][k % 3]
            if pspec["objectives"]:
                kw = dict(kw, optimizer="incremental", max_iter=3)
            hp = B.build(pspec, seed + 100 + k, solver_kwargs=kw)
            hp.solver.solve()
        except Exception:
            ctx.event("prefix_problem_raised")
        ctx.event("prefix_problems")
    try:
        sb = probe.Session(twin, seed + 1)
    except B.BuildRejected as exc:
        viol("twin_rejected_at_creation", repr(exc.exc))
        return
    finally:
        env.reset_z3_globals()
    ctx.evaluation()
    ra, scha, _ = sa.check([])
    rb, schb, _ = sb.check([])
    if "unknown" in (ra, rb):
        ctx.inconclusive += 1
        return
    if ra != rb:
        viol("verdicts_differ", {"original": ra, "twin": rb})
        return
    n_cross = 0
    if ra == "sat":
        ex = engine.Explorer(ctx, spec, seed)
        ex.sess = sa
        for origin, sched, _m in ex.schedules(case["pins"], enum_cap=0, extremal=1):
            c = engine.to_candidate(spec, sched)
            cm = map_candidate(spec, twin, m, c)
            # the horizon of a problem without a declared horizon is part of the schedule (utilisation depends on it)
            r, twin_sched, _ = sb.admitted(cm, pin_horizon=True)
            ctx.evaluation()
            if r == "unknown":
                ctx.inconclusive += 1
            elif r != "sat":
                viol("schedule_of_original_rejected_by_twin", {"origin": origin}, {"schedule": c, "direction": "original->twin"})
                return
            else:
                n_cross += 1
                # the same schedule must carry the same indicator values and buffer profiles in the twin (only where the
                # documented value is exact, so that existential choices such as cumulative lanes cannot differ legitimately)
                vd = ref.judge(spec, sched, from_model=True)
                for i in spec["indicators"]:
                    rng = ref.indicator_value(i, vd.view, spec)
                    if rng is None or rng[0] != rng[1]:
                        continue
                    a, b = sched["indicators"].get(i["id"]), twin_sched["indicators"].get(i["id"])
                    if a != b:
                        viol("indicator_value_depends_on_names_or_order", {"indicator": i, "original": a, "twin": b}, {"schedule": c})
                        return
                for bspec in spec["buffers"]:
                    bo = sched["buffers"].get(bspec["name"])
                    bt = twin_sched["buffers"].get(m["buffer"].get(bspec["name"], bspec["name"]))
                    if bo and bt and _delivered_profile(bo) != _delivered_profile(bt):
                        viol("buffer_profile_depends_on_names_or_order", {"buffer": bspec["name"], "original": bo, "twin": bt}, {"schedule": c})
                        return
        ex2 = engine.Explorer(ctx, twin, seed + 1)
        ex2.sess = sb
        for origin, sched, _m in ex2.schedules([], enum_cap=0, extremal=1):
            c = engine.to_candidate(twin, sched)
            cm = map_candidate(twin, spec, m, c, inverse=True)
            r, _, _ = sa.admitted(cm)
            ctx.evaluation()
            if r == "unknown":
                ctx.inconclusive += 1
            elif r != "sat":
                viol("schedule_of_twin_rejected_by_original", {"origin": origin}, {"schedule": cm, "direction": "twin->original"})
                return
            else:
                n_cross += 1
        if spec["objectives"] and len({ref.objective_kind(o) for o in spec["objectives"]}) == 1:
            try:
                del CUT_SHORT[:]
                va, vb = optimum(spec, seed + 2), optimum(twin, seed + 3)
            except Exception as exc:
                viol("optimisation_raised", repr(exc))
                return
            ctx.evaluation()
            if va is None or vb is None:
                ctx.inconclusive += 1  # one optimisation gave up (z3 'unknown'): both verdicts were 'sat' above
            elif va != vb and not CUT_SHORT:
                # both optimisers announced that they had finished
                viol("optima_differ", {"original": va, "twin": vb})
                return
            elif va != vb:
                # an optimisation was cut short (real-clock time limit, z3 'unknown'): the difference counts only if the
                # problem with the worse value definitely admits nothing as good as the other one's value
                kind = ref.objective_kind(spec["objectives"][0])
                worse_is_twin = (vb > va) if kind == "minimize" else (vb < va)
                wspec, good = (twin, va) if worse_is_twin else (spec, vb)
                sess = probe.Session(wspec, seed + 7, {"optimizer": "incremental"})
                tvar = adapter._get(adapter._get(sess.h.solver, "_objective"), "_target")
                st_, _, _ = sess.check([tvar <= good] if kind == "minimize" else [tvar >= good], extras=False)
                if st_ == "unsat":
                    viol("optima_differ", {"original": va, "twin": vb})
                    return
                ctx.inconclusive += 1
                ctx.event("optimisation_cut_short_or_unknown")
    if (moved_names >= 2 or moved_perm >= 1) and n_cross >= 1 and (any(t["optional"] for t in spec["tasks"]) or spec["selects"] or spec["cumulative"]):
        ctx.nontrivial_case({"spec": spec, "map": m, "perms": perms})
        ctx.event("nontrivial")
        ctx.sample({"spec": spec, "map": m, "perms": perms, "n_prefix": len(case["prefix"]), "cross_pinned": n_cross}, cap=2)
    ctx.event("moved_names_%s" % ("0" if moved_names == 0 else "1" if moved_names == 1 else "2+"))
    ctx.event("moved_stages_%d" % moved_perm)


def run_shard(ctx):
    n = {"quick": 45, "thorough": 500}[ctx.tier]
    run_hypothesis(ctx, cases(), prop, max_examples=n)
    run_hypothesis(ctx, cases(PROFILE_PARK), prop, max_examples=n // 2)
    run_hypothesis(ctx, cases(PROFILE_STARTOBJ), prop, max_examples=n // 2)
    run_hypothesis(ctx, cases(PROFILE_WINDOWS), prop, max_examples=n)
    run_hypothesis(ctx, cases(PROFILE_SORT), prop, max_examples=n // 2)
    run_hypothesis(ctx, cases(PROFILE_CARRY), prop, max_examples=n)
    run_hypothesis(ctx, cases(PROFILE_MULTIOBJ), prop, max_examples=n)


def replay(record):
    from ..runner import Ctx
    ctx = Ctx("C14", "quick", 0, 0, 1, collect=True)
    ctx.replaying = True
    prop(ctx, {"spec": record["spec"], "map": record["map"], "perms": {k: v for k, v in record["perms"].items()}, "prefix": record.get("prefix", []),
               "pins": [], "seed": record.get("seed", 0)})
    if ctx.violations:
        b, (sz, rec) = next(iter(ctx.violations.items()))
        return True, {"rule": rec["rule"], "observed": rec["observed"]}
    return False, "twin agrees"
