"""C15 - solver options change performance and search order only, never validity."""
import random

from hypothesis import strategies as st

from .. import adapter, build as B, engine, env, probe, ref, spec as S
from ..runner import run_hypothesis

ID = "C15"
RULE = (
    "generated problems x solver configurations drawn from optimizer x optimize_priority x parallel x random_values x debug x "
    "logics (logics restricted by a syntactic classifier to those that cover the problem: difference-only -> QF_IDL/QF_UFIDL as "
    "well, linear -> QF_LIA/QF_UFLIA/QF_AUFLIA/QF_ALIA, arrays only with A-logics, non-linear/quantified -> default only). Each "
    "problem is rebuilt and solved under the default configuration and 3 others. Every returned schedule must be reference-valid; "
    "among definite answers (sat/unsat, no early stop) the feasibility verdict and, for a single objective or weighted mode, the "
    "optimum must agree; a configuration that returned a solution is asked once more on the same solver object and must give the same "
    "verdict and optimum. Non-trivial = two configurations differing in >= 2 options both gave a definite answer on a problem "
    "with at least one constraint or shared resource; distinct by SHA-1 of (spec, configuration)."
)
ASSUMPTIONS = [
    "z3 answers trusted; 'unknown' and time-outs are inconclusive",
    "logic coverage is decided by a syntactic classifier of the spec (vf/props/c15.py); logics that do not cover the problem are not generated",
    "parallel mode uses z3 threads whose interleavings are not controlled; only validity and agreement are checked",
]
TECHNIQUE = "Hypothesis-generated problem x configuration pairs; reference validity + differential between configurations"

PROFILE = S.profile(min_tasks=1, max_tasks=4, p_resources=60, task_constraints=(0, 2), optional_rules=(0, 1), resource_constraints=(0, 1), buffers=(0, 1),
                    indicators=(0, 2), objectives=(0, 2), p_optional=25, p_work_amount=15, indicator_constraints=30, optional_constraints=35, p_indicator_bounds=40)
# objectives over user indicators carrying (possibly optional, hence void) IndicatorBounds / IndicatorTarget constraints and
# documented bounds: the incremental optimiser's early exits against the built-in optimiser
PROFILE_IND = S.profile(min_tasks=1, max_tasks=3, horizon=(3, 6), p_no_horizon=0, p_resources=30, task_constraints=(0, 1), optional_rules=(0, 0), resource_constraints=(0, 0),
                        indicators=(1, 2), indicator_types=["FromMathExpression"], objectives=(1, 1), only_objectives=["MinimizeIndicator", "MaximizeIndicator"],
                        indicator_constraints=70, optional_constraints=75, p_indicator_bounds=40, p_optional=15, p_release=10, p_due=10, p_work_amount=0)
# minimised indicators that take negative values (differences of task variables, maximum lateness with generous due dates)
PROFILE_NEG = S.profile(min_tasks=2, max_tasks=3, horizon=(3, 6), p_no_horizon=0, p_resources=30, task_constraints=(0, 1), optional_rules=(0, 0), resource_constraints=(0, 0),
                        indicators=(1, 2), indicator_types=["FromMathExpression", "FromMathExpression", "MaximumLateness"], arith_kinds=[1, 1, 3], arith_ops=["-"],
                        objectives=(1, 1), only_objectives=["MinimizeIndicator"], objective_direction="min", indicator_constraints=40, optional_constraints=30, p_indicator_bounds=30,
                        p_optional=10, p_release=10, p_due=60, p_work_amount=0, p_weight_zero=0)
VALID_FAMILIES = ("T", "W", "TC", "RC", "OPT", "BUF", "FOL")


def classify(spec):
    """syntactic fragment of the generated problem: 'idl' < 'lia' < 'alia' < 'other'"""
    level = "idl"

    def up(l):
        nonlocal level
        order = ["idl", "lia", "alia", "other"]
        if order.index(l) > order.index(level):
            level = l

    for t in spec["tasks"]:
        if t["kind"] == "var":
            up("lia")
        if t.get("work_amount"):
            up("lia")
    if spec["selects"] or spec["cumulative"]:
        up("lia")  # pseudo-boolean selection constraints
    if spec["workers"] and any(a.get("dynamic") for a in spec["assign"]):
        up("lia")
    for b in spec["buffers"]:
        up("other" if b.get("concurrent") else "alia")
    for c in spec["constraints"]:
        ty = c["type"]
        if ty in ("ResourcePeriodicallyUnavailable", "ResourcePeriodicallyInterrupted"):
            up("other")
        elif ty in ("TaskStartAt", "TaskEndAt", "TaskStartAfter", "TaskEndBefore", "TaskPrecedence", "TasksStartSynced", "TasksEndSynced", "TasksDontOverlap", "TaskLoadBuffer", "TaskUnloadBuffer"):
            pass
        else:
            up("lia")
    if spec["indicators"] or spec["objectives"]:
        up("lia")
    for i in spec["indicators"]:
        if i["type"] in ("ResourceUtilization", "ResourceCost") or (i["type"] == "FromMathExpression" and "*" in str(i["expr"])):
            up("other")
    for o in spec["objectives"]:
        if o["type"] in ("MaximizeResourceUtilization", "MinimizeResourceCost", "Priorities", "TasksStartEarliest", "MinimizeFlowtime"):
            up("other")
    return level


LOGICS = {"idl": ["QF_IDL", "QF_UFIDL", "QF_LIA", "QF_UFLIA", "QF_AUFLIA", "QF_ALIA"], "lia": ["QF_LIA", "QF_UFLIA", "QF_AUFLIA", "QF_ALIA"], "alia": ["QF_AUFLIA", "QF_ALIA"], "other": []}


@st.composite
def cases(draw, prof=None):
    spec = draw(S.specs(prof or PROFILE))
    lv = classify(spec)
    cfgs = []
    for _ in range(3):
        kw = {}
        if spec["objectives"]:
            kw["optimizer"] = draw(st.sampled_from(["incremental", "optimize"]))
            if kw["optimizer"] == "optimize":
                kw["optimize_priority"] = draw(st.sampled_from(["pareto", "lex", "box", "weight"]))
        if draw(st.integers(0, 99)) < 12:
            kw["parallel"] = True
        if draw(st.booleans()):
            kw["random_values"] = True
        # debug=True together with the builtin optimiser is not generated: z3 4.12.6 aborts the process
        # ("ASSERTION VIOLATION ast.cpp:388" / SIGSEGV) on tracked assertions inside z3.Optimize for about
        # 1 problem in 200 - a crash of z3 itself, not a verdict that could be compared (DESIGN.md section 5)
        if kw.get("optimizer") != "optimize" and draw(st.integers(0, 99)) < 30:
            kw["debug"] = True
        if LOGICS[lv] and kw.get("optimizer") != "optimize" and draw(st.integers(0, 99)) < 50:
            kw["logics"] = draw(st.sampled_from(LOGICS[lv]))
        kw["_rseed"] = draw(st.integers(0, 1000))
        cfgs.append(kw)
    return {"spec": spec, "cfgs": cfgs, "seed": draw(st.integers(0, 2**30))}


def solve_cfg(spec, seed, kw):
    kw = dict(kw)
    rseed = kw.pop("_rseed", 0)
    random.seed(rseed)
    kw.setdefault("max_time", 6)  # bounds z3's own timeout per check; a give-up is inconclusive, never a verdict
    h = B.build(spec, seed, solver_kwargs=kw)
    with env.collect_prints() as printed:
        sol = h.solver.solve()
        early = any(a and isinstance(a[0], str) and ("Max time" in a[0]) for a in printed)
    definite = True
    if not sol:
        z = adapter._get(h.solver, "_solver")
        try:
            definite = str(z.check()) == "unsat"  # anything else: z3 gave up on the first call
        except Exception:
            definite = False
        if kw.get("optimizer") == "optimize" and kw.get("optimize_priority") in ("pareto", "box") and len(spec["objectives"]) > 1:
            definite = False  # a second check() is the next step of z3's walk over the front, not a re-check
    val = None
    sched = None
    if sol:
        m = adapter._get(h.solver, "_model")
        sched = adapter.read_schedule(h, m)
        obj = adapter._get(h.solver, "_objective")
        if obj is not None and len(spec["objectives"]) == 1:
            val = m.eval(adapter._get(obj, "_target"), model_completion=True).as_long()
    h.repeat = None
    walk = kw.get("optimizer") == "optimize" and kw.get("optimize_priority") in ("pareto", "box", "lex") and len(spec["objectives"]) > 1
    if sol and definite and not early and not walk:
        # the same call once more on the same solver object: an option must not make the answer depend on the history
        with env.collect_prints() as printed:
            sol2 = h.solver.solve()
            early2 = any(a and isinstance(a[0], str) and ("Max time" in a[0] or ("Reason:" in a[0] and "Unsatisfiable" not in a[0])) for a in printed)
        if not early2:
            if not sol2:
                try:
                    if str(adapter._get(h.solver, "_solver").check()) == "unsat":
                        h.repeat = {"first": "solution", "second": "no solution (definite unsat)"}
                except Exception:
                    pass
            elif val is not None and kw.get("optimizer") != "optimize":
                m2 = adapter._get(h.solver, "_model")
                val2 = m2.eval(adapter._get(adapter._get(h.solver, "_objective"), "_target"), model_completion=True).as_long()
                if val2 != val:
                    h.repeat = {"first_optimum": val, "second_optimum": val2}
    h.handoff = None
    if kw.get("optimizer") == "optimize" and spec["objectives"]:
        # what was handed to z3.Optimize: exactly the declared objectives with their direction (z3 stores a
        # maximisation as the minimisation of the negated term)
        z = adapter._get(h.solver, "_solver")
        registered = [str(x) for x in z.objectives()]
        objs = list(h.objectives.values())
        if len(objs) == 1 or kw.get("optimize_priority") == "weight":
            o = adapter._get(h.solver, "_objective")
            expected = [str(adapter._get(o, "_target") if o.kind == "minimize" else -adapter._get(o, "_target"))]
        else:
            expected = [str(adapter._get(o, "_target") if o.kind == "minimize" else -adapter._get(o, "_target")) for o in objs]
        if registered != expected:
            h.handoff = {"registered": registered, "expected": expected}
    return h, sol, sched, val, definite and not early


def ndiff(a, b):
    keys = set(a) | set(b)
    keys.discard("_rseed")
    return sum(1 for k in keys if a.get(k) != b.get(k))


def prop(ctx, case):
    spec, cfgs, seed = case["spec"], case["cfgs"], case["seed"]
    results = []
    try:
        for kw in [{}] + list(cfgs):
            try:
                h, sol, sched, val, definite = solve_cfg(spec, seed, kw)
            except B.BuildRejected as exc:
                ctx.event(f"build_rejected:{exc.stage}:{type(exc.exc).__name__}")
                return
            except Exception as exc:
                ctx.violation({"check": "C15.config", "rule": "solve_raised", "spec": spec, "seed": seed, "cfg": kw, "probe": {"kind": "config"},
                               "observed": repr(exc), "signature": {"rule": "solve_raised", "classes": engine.classes_of(spec), "cfg_keys": sorted(k for k in kw if k != "_rseed")}})
                return
            ctx.evaluation()
            for k, v in kw.items():
                if k != "_rseed":
                    ctx.event(f"cfg:{k}={v}")
            if getattr(h, "handoff", None):
                ctx.violation({"check": "C15.config", "rule": "objectives_handed_to_z3_differ_from_declared", "spec": spec, "seed": seed, "cfg": kw, "probe": {"kind": "config"},
                               "observed": h.handoff, "signature": {"rule": "objectives_handoff", "classes": engine.classes_of(spec), "cfg_keys": sorted(k for k in kw if k != "_rseed")}})
                return
            if getattr(h, "repeat", None):
                ctx.violation({"check": "C15.config", "rule": "repeated_solve_differs_under_configuration", "spec": spec, "seed": seed, "cfg": kw, "probe": {"kind": "config"},
                               "observed": h.repeat, "signature": {"rule": "repeated_solve_differs", "classes": engine.classes_of(spec), "cfg_keys": sorted(k for k in kw if k != "_rseed")}})
                return
            if sol:
                bad = ref.judge(spec, sched).bad(VALID_FAMILIES)
                if bad:
                    ctx.violation({"check": "C15.config", "rule": "invalid_schedule_under_configuration", "spec": spec, "seed": seed, "cfg": kw,
                                   "probe": {"kind": "config", "schedule": engine.to_candidate(spec, sched)}, "observed": engine.summarize_bad(bad),
                                   "signature": {"rule": "invalid_schedule", "classes": engine.classes_of(spec), "cfg_keys": sorted(k for k in kw if k != "_rseed")}})
                    return
            results.append((kw, bool(sol), val, definite))
    finally:
        env.reset_z3_globals()
    base = results[0]
    for kw, ok, val, definite in results[1:]:
        if not (definite and base[3]):
            ctx.inconclusive += 1
            continue
        pareto_like = kw.get("optimize_priority") in ("pareto", "box", "lex") and kw.get("optimizer") == "optimize" and len(spec["objectives"]) > 1
        if ok != base[1]:
            ctx.violation({"check": "C15.config", "rule": "verdicts_differ", "spec": spec, "seed": seed, "cfg": kw, "probe": {"kind": "config"},
                           "observed": {"default": base[1], "configured": ok}, "signature": {"rule": "verdicts_differ", "classes": engine.classes_of(spec), "cfg_keys": sorted(k for k in kw if k != "_rseed")}})
            return
        # optimality is only comparable inside a fragment where z3 decides it: on non-linear or quantified
        # problems z3.Optimize answers 'sat' with a model that need not be optimal (measured: 3 / 4 / 5 / 11 for
        # one MinimizeMakespan problem with a concurrent buffer across runs)
        worse_only = False
        if ok and val is not None and base[2] is not None and val != base[2] and kw.get("optimizer") == "optimize":
            # z3 4.12.6's Optimize may return a non-optimal model (DESIGN.md section 5): only a value BETTER than the
            # incremental optimum of the default configuration is decidable
            kd = ref.objective_kind(spec["objectives"][0])
            worse_only = (kd == "minimize" and val > base[2]) or (kd == "maximize" and val < base[2])
            if worse_only:
                ctx.event("builtin_optimiser_returned_non_optimal_value")
                ctx.inconclusive += 1
        if ok and val is not None and base[2] is not None and val != base[2] and not pareto_like and not worse_only and classify(spec) in ("idl", "lia"):
            ctx.violation({"check": "C15.config", "rule": "optimum_differs", "spec": spec, "seed": seed, "cfg": kw, "probe": {"kind": "config"},
                           "observed": {"default": base[2], "configured": val}, "signature": {"rule": "optimum_differs", "classes": engine.classes_of(spec), "cfg_keys": sorted(k for k in kw if k != "_rseed")}})
            return
        structured = bool(spec["constraints"]) or any(n >= 2 for n in S.assigned_resources(spec).values())
        if ndiff(kw, {}) >= 2 and structured:
            ctx.nontrivial_case({"spec": spec, "cfg": {k: v for k, v in kw.items() if k != "_rseed"}})
            ctx.sample({"spec": spec, "cfg": kw, "feasible": ok, "optimum": val}, cap=3)


def run_shard(ctx):
    n = {"quick": 35, "thorough": 400}[ctx.tier]
    run_hypothesis(ctx, cases(), prop, max_examples=n)
    run_hypothesis(ctx, cases(PROFILE_IND), prop, max_examples=n)
    run_hypothesis(ctx, cases(PROFILE_NEG), prop, max_examples=n)


def replay(record):
    from ..runner import Ctx
    ctx = Ctx("C15", "quick", 0, 0, 1, collect=True)
    ctx.replaying = True
    prop(ctx, {"spec": record["spec"], "cfgs": [record.get("cfg", {})], "seed": record.get("seed", 0)})
    if ctx.violations:
        b, (sz, rec) = next(iter(ctx.violations.items()))
        return True, {"rule": rec["rule"], "observed": rec["observed"]}
    return False, "configurations agree"
