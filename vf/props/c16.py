"""C16 - exports (JSON, CSV/DataFrame, Excel, SMT-LIB) reproduce the data exactly.

Every exporter is read back through a parser the library does not use itself (json, csv,
zipfile + xml.etree, z3.parse_smt2_file) and compared with the SOLUTION OBJECT (the solution
object itself is judged by other properties), or - for SMT-LIB - with the live solver.

Sub-checks (record["check"]):
  C16.json       solution.to_json()                       (A)
  C16.csv        solution.to_df() / to_csv()              (B)
  C16.xlsx       solution.to_excel_file()                 (C)
  C16.smt2       solver.export_to_smt2()                  (D)
  C16.roundtrip  task / resource / function JSON trips    (E)

Every sub-check is a pure function returning a list of findings ``(rule id, observed)``; the
Hypothesis driver turns findings into violation records and ``replay`` re-executes the very
same function on the recorded spec / seed / pins.
"""
import ast
import csv
import io
import json
import os
import re
import shutil
import tempfile
import xml.etree.ElementTree as ET
import zipfile
from datetime import datetime, timedelta

import z3
from hypothesis import strategies as st

from .. import adapter, build as B, probe, ref, spec as S
from ..env import ps
from ..runner import run_hypothesis

ID = "C16"
TECHNIQUE = (
    "round trips through independent parsers (json, csv, zipfile+xml, z3.parse_smt2_file) over "
    "Hypothesis-generated solutions and problems"
)
RULE = (
    "generated mixed problem specs (1-4 tasks of all kinds, optional tasks, zero-duration tasks, workers / cumulative "
    "workers / selections, 0-1 buffers, 0-2 indicators; calendar times (delta_time + start_time, or delta_time alone) in "
    "about half of the cases; MinimizeMakespan under optimizer=incremental|optimize in about a third). Solutions come from the public solve() and "
    "from steered models (pins -> build_solution). Per solution: (A) json.loads(to_json()) [indented and compact] equals "
    "the solution object field by field (horizon; tasks: start/end/duration/scheduled/optional/assigned_resources/"
    "release/due and ISO start_time/end_time/duration_time; resource assignments; buffer levels and change times; "
    "indicator values); (B) to_df(), to_csv() and to_csv(file) [',' and ';'] parsed with the csv module give the rows "
    "Task name/Allocated Resources/Start/End/Duration/Scheduled of the solution in order; (C) to_excel_file(colors="
    "False|True) re-read with zipfile+xml.etree: resource sheet row i+1 = name + one bar on columns start+1..end per "
    "positive-length assignment with the task name, task sheet row i+1 = name + bar with ','.join(assigned_resources) "
    "for scheduled positive-length tasks, indicator sheet = indicators. (D) per generated problem and solver mode (plain, incremental / built-in optimiser with an objective, "
    "debug, debug + incremental; in half of the cases after a solve() on the same solver): export_to_smt2 -> "
    "z3.parse_smt2_file into a fresh solver: same sat/unsat as the live solver without pins and under each generated pin "
    "set over task variables (translated by constant name), the parsed system's models read back by name are valid task "
    "schedules (reference rules T, TC; resource-free problems) and are admitted by the live solver, and the live "
    "solver's default schedule is admitted by the parsed system. (E) FixedDuration/ZeroDuration/VariableDuration tasks, "
    "Worker, CumulativeWorker: to_json -> fresh problem.add_from_json -> equal model_dump(); Constant/Linear/Polynomial "
    "functions: to_json -> model_validate_json -> equal fields and equal values on 0..5. "
    "Non-trivial: (A-C) solution with >= 2 tasks and a resource, buffer or indicator; (D) problem with >= 1 constraint "
    "whose verdicts were compared under >= 1 applicable pin set; (E) every object. Distinct by SHA-1 of the case JSON."
)
ASSUMPTIONS = [
    "the solution object is the reference: its own correctness is judged by other properties",
    "json, csv, ast.literal_eval, zipfile, xml.etree, isodate and z3.parse_smt2_file are trusted parsers",
    "z3 sat/unsat answers are trusted; 'unknown' is inconclusive",
    "task variables are named <task>_start/_end/_duration/_scheduled and the horizon variable 'horizon' (documented to users)",
    "zero-length items and unscheduled tasks cannot be drawn on a spreadsheet grid: only 'export succeeds' and 'name column intact' are demanded of them",
    "bars ending beyond column 16384 (the last column of the xlsx format) are not judged",
    "ISO-8601 durations of a year or more are read with the serialiser's convention 1Y = 365 days (pydantic writes 'P1Y137D' for 502 days)",
    "the CSV/DataFrame 'Tardy' column is not part of the property",
]

CSV_COLUMNS = ["Task name", "Allocated Resources", "Start", "End", "Duration", "Scheduled"]

PROF_SOL = S.profile(
    min_tasks=2, max_tasks=4, p_optional=35, horizon=(4, 10), p_no_horizon=20, p_resources=85, task_constraints=(0, 1),
    optional_rules=(0, 1), resource_constraints=(0, 1), buffers=(0, 1), indicators=(0, 2), p_cumulative=45,
    p_release=20, p_due=25, p_work_amount=15,
)
PROF_SMT_FREE = S.profile(
    max_tasks=4, p_optional=35, p_resources=0, task_constraints=(1, 3), optional_rules=(0, 1),
    resource_constraints=(0, 0), fol=(0, 1), p_release=40, p_due=40,
)
PROF_SMT_MIXED = S.profile(
    max_tasks=4, p_optional=30, p_resources=70, task_constraints=(0, 2), optional_rules=(0, 1),
    resource_constraints=(0, 1), buffers=(0, 1), indicators=(0, 1),
)
N_PINS_SMT = 4


class LibraryRaised(Exception):
    """an exporter of the library raised on a valid input (a finding, not a harness error)"""

    def __init__(self, rule, exc, extra=None):
        super().__init__(f"{rule}: {exc!r}")
        self.rule = rule
        self.exc = exc
        self.extra = extra or {}


def _lib(rule, fn, *a, **kw):
    try:
        return fn(*a, **kw)
    except Exception as exc:  # raised by the code under test
        raise LibraryRaised(rule, exc)


# =============================================================================================
# strict comparison helpers
# =============================================================================================
def _plain(x):
    """tuples -> lists, recursively"""
    if isinstance(x, (list, tuple)):
        return [_plain(i) for i in x]
    if isinstance(x, dict):
        return {k: _plain(v) for k, v in x.items()}
    return x


def same(a, b):
    """type-strict equality on JSON-like values (True != 1, 1 != 1.0)"""
    a, b = _plain(a), _plain(b)
    if isinstance(a, list) or isinstance(b, list):
        return isinstance(a, list) and isinstance(b, list) and len(a) == len(b) and all(same(x, y) for x, y in zip(a, b))
    if isinstance(a, dict) or isinstance(b, dict):
        return isinstance(a, dict) and isinstance(b, dict) and set(a) == set(b) and all(same(a[k], b[k]) for k in a)
    return type(a) is type(b) and a == b


def _short(x, n=240):
    s = repr(x)
    return s if len(s) <= n else s[:n] + "..."


# =============================================================================================
# A. solution JSON
# =============================================================================================
def _parse_time(s):
    """ISO-8601 date-time or duration string -> datetime / timedelta (None passes through).

    A duration of a year or more is written by the serialiser with a year designator ("P1Y137D" for
    502 days).  ISO 8601 leaves the length of "1Y" to the calendar; the serialiser's documented
    convention (1Y = 365 days, no month designator) is followed here instead of raising an alarm."""
    if s is None:
        return None
    if not isinstance(s, str):
        return ("not-a-string", s)
    if s.lstrip("+-").startswith("P"):
        import isodate

        d = isodate.parse_duration(s)
        if not isinstance(d, timedelta):
            d = timedelta(days=365 * int(d.years) + 30 * int(d.months)) + d.tdelta
        return d
    return datetime.fromisoformat(s)


def _naive(x):
    if isinstance(x, datetime) and x.tzinfo is not None:
        return x.replace(tzinfo=None) - x.utcoffset()
    return x


def check_json(sol, problem):
    """-> findings [(rule, observed)]"""
    out = []
    txt = _lib("json_raised", sol.to_json)
    txt_c = _lib("json_raised", sol.to_json, compact=True)
    try:
        js = json.loads(txt)
        jc = json.loads(txt_c)
    except ValueError as exc:
        return [("json_does_not_parse", repr(exc))]
    if js != jc:
        out.append(("json_compact_differs", "compact and indented JSON denote different values"))
    if not isinstance(js, dict):
        return [("json_not_an_object", _short(js))]
    if not same(js.get("horizon"), sol.horizon):
        out.append(("json_horizon", {"json": js.get("horizon"), "solution": sol.horizon}))

    # ---- tasks
    jt = js.get("tasks")
    if not isinstance(jt, dict) or list(jt) != list(sol.tasks):
        out.append(("json_task_set", {"json": list(jt) if isinstance(jt, dict) else _short(jt), "solution": list(sol.tasks)}))
        jt = jt if isinstance(jt, dict) else {}
    for name, t in sol.tasks.items():
        j = jt.get(name)
        if not isinstance(j, dict):
            continue
        for field, jkey in (
            ("name", "name"), ("start", "start"), ("end", "end"), ("duration", "duration"), ("scheduled", "scheduled"),
            ("optional", "optional"), ("assigned_resources", "assigned_resources"), ("release_date", "release_date"),
            ("due_date", "due_date"),
        ):
            if jkey not in j or not same(j[jkey], getattr(t, field)):
                out.append((f"json_task_{field}", {"task": name, "json": j.get(jkey, "<missing>"), "solution": getattr(t, field)}))
        for field in ("start_time", "end_time", "duration_time"):
            want = getattr(t, field)
            try:
                got = _parse_time(j.get(field, "<missing>"))
            except Exception as exc:
                out.append(("json_task_time_unparsable", {"task": name, "field": field, "json": j.get(field), "error": repr(exc)}))
                continue
            if _naive(got) != _naive(want) or type(got) is not type(want):
                out.append(("json_task_time", {"task": name, "field": field, "json": j.get(field), "solution": repr(want)}))
        # calendar arithmetic of the exported strings, for tasks that are on the time line
        if problem.delta_time is not None and t.scheduled:
            dl = problem.delta_time
            base = problem.start_time if problem.start_time is not None else timedelta(0)
            exp = {"start_time": base + t.start * dl, "end_time": base + t.end * dl, "duration_time": t.duration * dl}
            for field, want in exp.items():
                try:
                    got = _parse_time(j.get(field))
                except Exception:
                    continue  # reported above
                if got is None or _naive(got) != _naive(want):
                    out.append(("json_calendar_time", {"task": name, "field": field, "json": j.get(field), "expected": repr(want)}))

    # ---- resources
    jr = js.get("resources")
    if not isinstance(jr, dict) or list(jr) != list(sol.resources):
        out.append(("json_resource_set", {"json": list(jr) if isinstance(jr, dict) else _short(jr), "solution": list(sol.resources)}))
        jr = jr if isinstance(jr, dict) else {}
    for name, r in sol.resources.items():
        j = jr.get(name)
        if not isinstance(j, dict):
            continue
        if not same(j.get("assignments"), [list(a) for a in r.assignments]):
            out.append(("json_resource_assignments", {"resource": name, "json": j.get("assignments"), "solution": _plain(r.assignments)}))

    # ---- buffers
    jb = js.get("buffers")
    if not isinstance(jb, dict) or list(jb) != list(sol.buffers):
        out.append(("json_buffer_set", {"json": list(jb) if isinstance(jb, dict) else _short(jb), "solution": list(sol.buffers)}))
        jb = jb if isinstance(jb, dict) else {}
    for name, b in sol.buffers.items():
        j = jb.get(name)
        if not isinstance(j, dict):
            continue
        if not same(j.get("level"), list(b.level)):
            out.append(("json_buffer_level", {"buffer": name, "json": j.get("level"), "solution": list(b.level)}))
        if not same(j.get("level_change_times"), list(b.level_change_times)):
            out.append(("json_buffer_times", {"buffer": name, "json": j.get("level_change_times"), "solution": list(b.level_change_times)}))

    # ---- indicators
    if not same(js.get("indicators"), dict(sol.indicators)):
        out.append(("json_indicators", {"json": js.get("indicators"), "solution": dict(sol.indicators)}))
    return out


# =============================================================================================
# B. DataFrame / CSV
# =============================================================================================
_INT_RE = re.compile(r"^-?\d+$")


def _rows_expected(sol):
    return [
        (name, list(t.assigned_resources), t.start, t.end, t.duration, bool(t.scheduled)) for name, t in sol.tasks.items()
    ]


def _csv_rows(text, sep):
    rd = csv.reader(io.StringIO(text, newline=""), delimiter=sep)
    rows = list(rd)
    return rows[0] if rows else [], rows[1:]


def _check_csv_text(text, sep, sol, label):
    out = []
    header, rows = _csv_rows(text, sep)
    missing = [c for c in CSV_COLUMNS if c not in header]
    if missing:
        return [("csv_columns", {"variant": label, "header": header, "missing": missing})]
    ix = {c: header.index(c) for c in CSV_COLUMNS}
    exp = _rows_expected(sol)
    if len(rows) != len(exp):
        out.append(("csv_row_count", {"variant": label, "rows": len(rows), "tasks": len(exp)}))
    for k, (row, want) in enumerate(zip(rows, exp)):
        if len(row) != len(header):
            out.append(("csv_row_shape", {"variant": label, "row": k, "cells": row}))
            continue
        cells = [row[ix[c]] for c in CSV_COLUMNS]
        got = [cells[0]]
        try:
            got.append(ast.literal_eval(cells[1]))
        except (ValueError, SyntaxError):
            got.append(("unparsable", cells[1]))
        for c in cells[2:5]:
            got.append(int(c) if _INT_RE.match(c) else ("not-an-integer", c))
        got.append({"True": True, "False": False}.get(cells[5], ("not-a-boolean", cells[5])))
        for col, g, w in zip(CSV_COLUMNS, got, want):
            if not same(g, w):
                out.append(("csv_" + col.lower().replace(" ", "_"), {"variant": label, "row": k, "csv": g, "solution": w}))
    return out


def check_csv(sol, tmpdir):
    out = []
    df = _lib("df_raised", sol.to_df)
    cols = [str(c) for c in df.columns]
    missing = [c for c in CSV_COLUMNS if c not in cols]
    exp = _rows_expected(sol)
    if missing:
        out.append(("df_columns", {"columns": cols, "missing": missing}))
    else:
        if len(df) != len(exp):
            out.append(("df_row_count", {"rows": len(df), "tasks": len(exp)}))
        for k in range(min(len(df), len(exp))):
            want = exp[k]
            raw = [df[c].iloc[k] for c in CSV_COLUMNS]
            got = [str(raw[0]) if isinstance(raw[0], str) else ("not-a-string", repr(raw[0]))]
            got.append(list(raw[1]) if isinstance(raw[1], (list, tuple)) else ("not-a-list", repr(raw[1])))
            for v in raw[2:5]:
                iv = None
                try:
                    if int(v) == v and not isinstance(v, (bool,)) and type(v).__name__ != "bool_":
                        iv = int(v)
                except (TypeError, ValueError):
                    pass
                got.append(iv if iv is not None else ("not-an-integer", repr(v)))
            got.append(bool(raw[5]) if type(raw[5]).__name__ in ("bool", "bool_", "bool") else ("not-a-boolean", repr(raw[5])))
            for col, g, w in zip(CSV_COLUMNS, got, want):
                if not same(g, w):
                    out.append(("df_" + col.lower().replace(" ", "_"), {"row": k, "df": g, "solution": w}))
    # CSV as string, with both separators
    txt = _lib("csv_raised", sol.to_csv)
    if not isinstance(txt, str):
        out.append(("csv_not_a_string", _short(txt)))
    else:
        out += _check_csv_text(txt, ",", sol, "string")
    txt2 = _lib("csv_raised", sol.to_csv, separator=";")
    if isinstance(txt2, str):
        out += _check_csv_text(txt2, ";", sol, "string;")
    else:
        out.append(("csv_not_a_string", _short(txt2)))
    # CSV file
    path = os.path.join(tmpdir, "solution.csv")
    _lib("csv_raised", sol.to_csv, path)
    if not os.path.isfile(path):
        out.append(("csv_file_missing", path))
    else:
        with open(path, "r", encoding="utf8", newline="") as fh:
            out += _check_csv_text(fh.read(), ",", sol, "file")
    return out


# =============================================================================================
# C. Excel
# =============================================================================================
_M = "{http://schemas.openxmlformats.org/spreadsheetml/2006/main}"
_R = "{http://schemas.openxmlformats.org/officeDocument/2006/relationships}"
_PR = "{http://schemas.openxmlformats.org/package/2006/relationships}"
_REF_RE = re.compile(r"^([A-Z]+)(\d+)$")
XLSX_MAX_COL = 16383  # last column (XFD) of the file format, 0-based: nothing can be drawn beyond it


def _ref(ref_):
    m = _REF_RE.match(ref_)
    if not m:
        raise ValueError(f"bad cell reference {ref_!r}")
    col = 0
    for ch in m.group(1):
        col = col * 26 + (ord(ch) - 64)
    return int(m.group(2)) - 1, col - 1


def _num(text):
    if _INT_RE.match(text):
        return int(text)
    return float(text)


def read_xlsx(path):
    """-> {sheet name: {"cells": {(row, col): value-or-None}, "merges": [(r1, c1, r2, c2)]}}  (0-based)"""
    book = {}
    with zipfile.ZipFile(path) as zf:
        names = set(zf.namelist())
        shared = []
        if "xl/sharedStrings.xml" in names:
            for si in ET.fromstring(zf.read("xl/sharedStrings.xml")).findall(_M + "si"):
                shared.append("".join(t.text or "" for t in si.iter(_M + "t")))
        rels = {}
        if "xl/_rels/workbook.xml.rels" in names:
            for rel in ET.fromstring(zf.read("xl/_rels/workbook.xml.rels")).findall(_PR + "Relationship"):
                rels[rel.get("Id")] = rel.get("Target")
        wb = ET.fromstring(zf.read("xl/workbook.xml"))
        for k, sh in enumerate(wb.find(_M + "sheets").findall(_M + "sheet")):
            target = rels.get(sh.get(_R + "id")) or f"worksheets/sheet{k+1}.xml"
            target = target.lstrip("/")
            if not target.startswith("xl/"):
                target = "xl/" + target
            root = ET.fromstring(zf.read(target))
            cells = {}
            for c in root.iter(_M + "c"):
                pos = _ref(c.get("r"))
                ty = c.get("t")
                v = c.find(_M + "v")
                if ty == "s":
                    val = shared[int(v.text)]
                elif ty == "inlineStr":
                    val = "".join(t.text or "" for t in c.iter(_M + "t"))
                elif ty == "str":
                    val = v.text if v is not None else ""
                elif ty == "b":
                    val = v is not None and v.text == "1"
                elif v is None or v.text is None:
                    val = None
                else:
                    val = _num(v.text)
                cells[pos] = val
            merges = []
            for mc in root.iter(_M + "mergeCell"):
                a, b = mc.get("ref").split(":")
                (r1, c1), (r2, c2) = _ref(a), _ref(b)
                merges.append((r1, c1, r2, c2))
            book[sh.get("name")] = {"cells": cells, "merges": merges}
    return book


def _bar(sheet, row, c1, c2, text):
    """is there a bar on `row` occupying exactly columns c1..c2 that shows `text`?  -> None | reason"""
    cells, merges = sheet["cells"], sheet["merges"]
    touching = [m for m in merges if m[0] <= row <= m[2] and not (m[3] < c1 or m[1] > c2)]
    want = [(row, c1, row, c2)] if c2 > c1 else []
    if sorted(touching) != want:
        return {"reason": "merged ranges", "expected": want, "found": sorted(touching)}
    if (row, c1) not in cells:
        return {"reason": "no cell at the first column of the bar", "cell": [row, c1]}
    shown = cells[(row, c1)]
    shown = "" if shown is None else shown
    if shown != text:
        return {"reason": "bar text", "expected": text, "found": shown, "cell": [row, c1]}
    return None


def _overlap_pos(a, b):
    return max(a[1], b[1]) < min(a[2], b[2])


def parallel_positive_assignments(sol):
    """resources that report two positive-length assignments overlapping in time"""
    out = []
    for rn, r in sol.resources.items():
        pos = [a for a in r.assignments if a[2] - a[1] >= 1]
        if any(_overlap_pos(a, b) for i, a in enumerate(pos) for b in pos[i + 1:]):
            out.append(rn)
    return out


def check_book(sol, book, variant):
    out = []

    def add(rule, obs):
        obs = dict(obs)
        obs["variant"] = variant
        out.append((rule, obs))

    # ---- resource view
    sh = book.get("GANTT Resource view")
    if sh is None:
        add("xlsx_sheet_missing", {"sheet": "GANTT Resource view", "sheets": list(book)})
    else:
        cells = sh["cells"]
        for i, rn in enumerate(sol.resources):
            row = i + 1
            if cells.get((row, 0)) != rn:
                add("xlsx_resource_row_name", {"row": row, "expected": rn, "found": cells.get((row, 0))})
            assignments = [tuple(a) for a in sol.resources[rn].assignments]
            pos = [a for a in assignments if a[2] - a[1] >= 1]
            zero = [a for a in assignments if a[2] == a[1]]
            for a in pos:
                tn, s, e = a
                if e > XLSX_MAX_COL:
                    continue  # beyond the last column of the format: not judged
                why = _bar(sh, row, s + 1, e, tn)
                if why is None:
                    continue
                why.update(resource=rn, assignment=list(a))
                if any(b is not a and _overlap_pos(a, b) for b in pos):
                    add("xlsx_parallel_assignments_on_one_row", why)
                elif why.get("reason") == "bar text" and any(z[0] == why["found"] and s + 1 <= z[1] + 1 <= e for z in zero):
                    add("xlsx_bar_overwritten_by_zero_length_item", why)
                else:
                    add("xlsx_resource_bar", why)
        extra = sorted(r for (r, c) in cells if c == 0 and r > len(sol.resources))
        if extra:
            add("xlsx_resource_extra_row", {"rows": extra})

    # ---- task view
    sh = book.get("GANTT Task view")
    if sh is None:
        add("xlsx_sheet_missing", {"sheet": "GANTT Task view", "sheets": list(book)})
    else:
        cells = sh["cells"]
        for i, (tn, t) in enumerate(sol.tasks.items()):
            row = i + 1
            if cells.get((row, 0)) != tn:
                obs = {"row": row, "expected": tn, "found": cells.get((row, 0)), "scheduled": t.scheduled, "start": t.start, "end": t.end}
                if not t.scheduled and t.start + 1 <= 0 <= max(t.end, t.start + 1) and (row, 0) in cells:
                    # the bar of an unscheduled task parked in the past lands on the name column
                    add("xlsx_task_name_cell", obs)
                else:
                    add("xlsx_task_row_name", obs)
            if t.scheduled and t.end - t.start >= 1 and t.end <= XLSX_MAX_COL:
                why = _bar(sh, row, t.start + 1, t.end, ",".join(t.assigned_resources))
                if why is not None:
                    why.update(task=tn, start=t.start, end=t.end)
                    add("xlsx_task_bar", why)
        extra = sorted(r for (r, c) in cells if c == 0 and r > len(sol.tasks))
        if extra:
            add("xlsx_task_extra_row", {"rows": extra})

    # ---- indicators
    sh = book.get("Indicators")
    if sh is None:
        add("xlsx_sheet_missing", {"sheet": "Indicators", "sheets": list(book)})
    else:
        cells = sh["cells"]
        rows = sorted(r for (r, c) in cells if r >= 1 and c == 0)
        got = [(cells.get((r, 0)), cells.get((r, 1))) for r in rows]
        want = [(k, v) for k, v in sol.indicators.items()]
        if rows != list(range(1, len(want) + 1)) or not same(got, want):
            add("xlsx_indicators", {"expected": want, "found": got})
    return out


def classify_xlsx_exception(sol, colors, exc):
    """-> (rule id, extra observations) for an exception raised by to_excel_file"""
    par = parallel_positive_assignments(sol)
    if type(exc).__name__ == "OverlappingRange" and par:
        # one spreadsheet row per resource: two bars longer than one cell that overlap in time
        return "xlsx_parallel_assignments_on_one_row", {"resources_with_parallel_assignments": par}
    bare = [n for n, t in sol.tasks.items() if not t.assigned_resources]
    if colors and isinstance(exc, ValueError) and "Invalid color value" in str(exc) and bare:
        # the colour of a task bar is derived from the (empty) list of its resources
        return "xlsx_colors_raises_for_task_without_resource", {"tasks_without_resource": bare}
    return "xlsx_raised", {}


def check_xlsx(sol, tmpdir):
    """-> findings [(rule, observed, signature extras)]"""
    out = []
    for colors in (False, True):
        variant = "colors" if colors else "grey"
        path = os.path.join(tmpdir, f"solution_{int(colors)}.xlsx")
        try:
            sol.to_excel_file(path, colors=colors)
        except Exception as exc:  # raised by the code under test
            rule, extra = classify_xlsx_exception(sol, colors, exc)
            obs = {"exception": repr(exc), "variant": variant}
            obs.update(extra)
            out.append((rule, obs, {"exc": type(exc).__name__, "colors": colors}))
            continue
        if not os.path.isfile(path):
            out.append(("xlsx_file_missing", {"variant": variant}, {}))
            continue
        try:
            book = read_xlsx(path)
        except (zipfile.BadZipFile, ET.ParseError, KeyError, ValueError) as exc:
            out.append(("xlsx_unreadable", {"variant": variant, "error": repr(exc)}, {}))
            continue
        out += [(r, o, {}) for r, o in check_book(sol, book, variant)]
    return out


# =============================================================================================
# solutions for A-C
# =============================================================================================
@st.composite
def solution_cases(draw, prof):
    case = draw(S.spec_with_pins(prof, n_sets=2))
    spec = case["spec"]
    cal = draw(st.sampled_from(["none", "none", "none", "full", "full", "delta"]))
    if cal != "none":
        spec["delta_time_s"] = draw(st.sampled_from([900, 900, 3600, 86400, 1, 90]))
        if cal == "full":
            spec["start_time"] = draw(st.sampled_from(["2024-01-01T08:00:00", "2024-01-01T08:00:00", "2023-12-31T23:30:00", "2024-02-28T12:00:00"]))
    opt = draw(st.sampled_from([None, None, None, "incremental", "optimize"]))
    if opt is not None:
        spec["objectives"] = [{"type": "MinimizeMakespan"}]
        case["solver_kwargs"] = {"optimizer": opt}
    else:
        case["solver_kwargs"] = None
    return case


def make_solution(spec, seed, origin):
    """-> (handle, solution) or (None, reason).  origin: {"kind": "public"|"steered", ...}"""
    if origin["kind"] == "public":
        h, sol, exc = probe.solve_public(spec, seed, origin.get("solver_kwargs"))
        if exc is not None:
            return None, "solve_raised:" + type(exc).__name__
        if not sol:
            return None, "no_solution"
        return h, sol
    sess = probe.Session(spec, seed)
    pins = origin.get("pins") or []
    if not sess.pins_applicable(pins):
        return None, "pins_not_applicable"
    st_, sched, model = sess.check_pins(pins, extras=False)
    if st_ != "sat":
        return None, "steered_" + st_
    try:
        sol = sess.h.solver.build_solution(model)
    except Exception as exc:  # the solution builder is judged elsewhere
        return None, "build_solution_raised:" + type(exc).__name__
    return sess.h, sol


_TASK_FIELDS = (
    "type", "start", "end", "duration", "release_date", "due_date", "due_date_is_deadline", "optional", "scheduled",
    "work_amount", "priority",
)


def _enc_time(x):
    if x is None:
        return None
    if isinstance(x, datetime):
        return {"datetime": x.isoformat()}
    if isinstance(x, timedelta):
        return {"timedelta_us": (x.days * 86400 + x.seconds) * 1000000 + x.microseconds}
    raise TypeError(f"unexpected time value {x!r}")


def _dec_time(x):
    if x is None:
        return None
    if "datetime" in x:
        return datetime.fromisoformat(x["datetime"])
    return timedelta(microseconds=x["timedelta_us"])


def dump_solution(sol):
    """plain-JSON copy of a solution object, read attribute by attribute (no exporter involved)"""
    d = {"horizon": sol.horizon, "tasks": [], "resources": [], "buffers": [], "indicators": [[k, v] for k, v in sol.indicators.items()]}
    for n, t in sol.tasks.items():
        rec = {"name": n, "assigned_resources": list(t.assigned_resources)}
        for f in _TASK_FIELDS:
            rec[f] = getattr(t, f)
        for f in ("start_time", "end_time", "duration_time"):
            rec[f] = _enc_time(getattr(t, f))
        d["tasks"].append(rec)
    for n, r in sol.resources.items():
        d["resources"].append({"name": n, "type": r.type, "assignments": [list(a) for a in r.assignments]})
    for n, b in sol.buffers.items():
        d["buffers"].append({"name": n, "level": list(b.level), "level_change_times": list(b.level_change_times)})
    return d


def load_solution(problem, d):
    """the inverse of dump_solution, through the public solution classes (as build_solution does)"""
    sm = __import__("processscheduler.solution", fromlist=["x"])
    sol = sm.SchedulingSolution(problem=problem)
    sol.horizon = d["horizon"]
    for rec in d["tasks"]:
        t = sm.TaskSolution(name=rec["name"])
        for f in _TASK_FIELDS:
            setattr(t, f, rec[f])
        for f in ("start_time", "end_time", "duration_time"):
            setattr(t, f, _dec_time(rec[f]))
        t.assigned_resources = list(rec["assigned_resources"])
        sol.add_task_solution(t)
    for rec in d["resources"]:
        r = sm.ResourceSolution(name=rec["name"])
        r.type = rec["type"]
        r.assignments = [tuple(a) for a in rec["assignments"]]
        sol.add_resource_solution(r)
    for rec in d["buffers"]:
        b = sm.BufferSolution(name=rec["name"])
        b.level = list(rec["level"])
        b.level_change_times = list(rec["level_change_times"])
        sol.add_buffer_solution(b)
    for k, v in d["indicators"]:
        sol.add_indicator_solution(k, v)
    return sol


SOLUTION_CHECKS = {
    "C16.json": lambda sol, h, tmp: check_json(sol, h.problem),
    "C16.csv": lambda sol, h, tmp: check_csv(sol, tmp),
    "C16.xlsx": lambda sol, h, tmp: check_xlsx(sol, tmp),
}


def run_solution_check(check, sol, h):
    """-> findings [(rule, observed, signature extras)]"""
    tmp = tempfile.mkdtemp(prefix="c16_")
    try:
        try:
            return [f if len(f) == 3 else (f[0], f[1], {}) for f in SOLUTION_CHECKS[check](sol, h, tmp)]
        except LibraryRaised as lr:
            obs = {"exception": repr(lr.exc)}
            obs.update(lr.extra)
            return [(lr.rule, obs, {"exc": type(lr.exc).__name__})]
    finally:
        shutil.rmtree(tmp, ignore_errors=True)


def _solution_classes(sol):
    cl = []
    if any(not t.scheduled for t in sol.tasks.values()):
        cl.append("unscheduled_task")
    if any(t.scheduled and t.end == t.start for t in sol.tasks.values()):
        cl.append("zero_length_task")
    if any(r.assignments for r in sol.resources.values()):
        cl.append("assignments")
    if parallel_positive_assignments(sol):
        cl.append("parallel_assignments")
    if sol.buffers:
        cl.append("buffer")
    if sol.indicators:
        cl.append("indicator")
    return cl


def _judge_solution(ctx, spec, seed, origin, h, sol):
    for cl in _solution_classes(sol):
        ctx.event("sol:" + cl)
    if h.problem.delta_time is not None:
        ctx.event("sol:calendar_full" if h.problem.start_time is not None else "sol:calendar_delta_only")
    ctx.event("solution_origin_" + origin["kind"])
    clean = True
    for check in ("C16.json", "C16.csv", "C16.xlsx"):
        ctx.evaluation()
        ctx.event("evaluated:" + check)
        for rule, obs, sig in run_solution_check(check, sol, h):
            clean = False
            ctx.event(f"finding:{check}:{rule}")
            ctx.violation(
                {"check": check, "rule": rule, "spec": spec, "seed": seed, "origin": origin, "pins": origin.get("pins"),
                 "solution": dump_solution(sol), "observed": obs, "signature": dict({"rule": rule}, **sig)}
            )
    nt = len(sol.tasks) >= 2 and (bool(sol.resources) or bool(sol.buffers) or bool(sol.indicators))
    if nt:
        key = {"spec": spec, "seed": seed, "origin": origin}
        ctx.nontrivial_case(key)
        ctx.event("nontrivial:solution")
        if clean:
            ctx.sample({"check": "C16.json+csv+xlsx", "spec": spec, "origin": origin, "tasks": {n: [t.start, t.end, t.scheduled] for n, t in sol.tasks.items()}}, cap=2)


def prop_solutions(ctx, case):
    spec, seed = case["spec"], case["seed"]
    origins = [{"kind": "public", "solver_kwargs": case.get("solver_kwargs")}]
    origins += [{"kind": "steered", "pins": p} for p in case["pins"]]
    seen = set()
    for origin in origins:
        try:
            h, sol = make_solution(spec, seed, origin)
        except B.BuildRejected as exc:
            ctx.event(f"build_rejected:{exc.stage}:{type(exc.exc).__name__}")
            return
        if h is None:
            ctx.event("no_solution:" + sol)
            if sol.endswith("unknown"):
                ctx.inconclusive += 1
            continue
        key = json.dumps({n: [t.start, t.end, t.duration, t.scheduled, t.assigned_resources] for n, t in sol.tasks.items()}, sort_keys=True)
        if key in seen:
            ctx.event("duplicate_solution_skipped")
            continue
        seen.add(key)
        _judge_solution(ctx, spec, seed, origin, h, sol)


# =============================================================================================
# D. SMT-LIB
# =============================================================================================
_DECL_RE = re.compile(r"\(declare-fun\s+(\|[^|]*\||\S+)\s+\(\)\s+(Int|Bool)\)")


@st.composite
def smt_cases(draw, prof):
    case = draw(S.spec_with_pins(prof, n_sets=N_PINS_SMT))
    mode = draw(st.sampled_from(["plain", "plain", "plain", "incremental", "incremental", "optimize", "optimize_noobj", "debug", "debug_incremental"]))
    kw = None
    if mode == "debug":
        kw = {"debug": True}  # assertions are tracked (assert_and_track): the export must still denote the problem
    elif mode == "debug_incremental":
        # tracked assertions and the incremental optimiser's pushed / popped bounds on one solver
        case["spec"]["objectives"] = [{"type": "MinimizeMakespan"}]
        kw = {"debug": True, "optimizer": "incremental"}
    if mode in ("incremental", "optimize"):
        case["spec"]["objectives"] = [{"type": "MinimizeMakespan"}]
        kw = {"optimizer": mode}
    elif mode == "optimize_noobj":
        kw = {"optimizer": "optimize"}
    case["solver_kwargs"] = kw
    return case


def _task_only(pins):
    for p in pins:
        keys = [p["flag"]] if "flag" in p else [p["lhs"]] + ([p["rhs"]["var"]] if "var" in p["rhs"] else [])
        if any(k[0] != "task" for k in keys):
            return False
    return True


def _named(key):
    _, name, attr = key
    if attr == "scheduled":
        return z3.Bool(f"{name}_scheduled")
    return z3.Int(f"{name}_{attr}")


def _pin_names(pins):
    out = []
    for p in pins:
        keys = [p["flag"]] if "flag" in p else [p["lhs"]] + ([p["rhs"]["var"]] if "var" in p["rhs"] else [])
        out += [f"{k[1]}_{k[2]}" for k in keys]
    return out


def pin_by_name(p):
    if "flag" in p:
        return _named(p["flag"]) == bool(p["val"])
    lhs = _named(p["lhs"])
    rhs = p["rhs"]
    r = rhs["const"] if "const" in rhs else _named(rhs["var"]) + rhs.get("plus", 0)
    return B.CMP[p["op"]](lhs, r)


def _check(solver, extra=()):
    solver.push()
    try:
        for c in extra:
            solver.add(c)
        r = solver.check()
        if r == z3.sat:
            return "sat", solver.model()
        return ("unsat" if r == z3.unsat else "unknown"), None
    finally:
        solver.pop()


def _int_of(model, name):
    v = model.eval(z3.Int(name), model_completion=True)
    if not z3.is_int_value(v):
        raise ValueError(f"model value of {name} is not an integer: {v}")
    return v.as_long()


def schedule_by_name(spec, model, declared):
    """read a task schedule from a model of the parsed system, by constant name"""
    rec = {"tasks": {}, "assign": [{"busy": {}, "chosen": None} for _ in spec.get("assign", [])]}
    for t in spec["tasks"]:
        n = t["name"]
        r = {"start": _int_of(model, f"{n}_start"), "end": _int_of(model, f"{n}_end")}
        r["duration"] = _int_of(model, f"{n}_duration") if t["kind"] == "var" else None
        if t["optional"]:
            r["scheduled"] = z3.is_true(model.eval(z3.Bool(f"{n}_scheduled"), model_completion=True))
        else:
            r["scheduled"] = True
        rec["tasks"][n] = r
    if spec.get("horizon") is not None:
        rec["horizon"] = spec["horizon"]
    else:
        rec["horizon"] = _int_of(model, "horizon")
    return rec


def pins_by_name_for_schedule(spec, sched):
    out = []
    for t in spec["tasks"]:
        n = t["name"]
        r = sched["tasks"][n]
        if t["optional"]:
            out.append(z3.Bool(f"{n}_scheduled") == bool(r["scheduled"]))
        if not r["scheduled"]:
            continue
        out.append(z3.Int(f"{n}_start") == r["start"])
        out.append(z3.Int(f"{n}_end") == r["end"])
        if t["kind"] == "var" and r.get("duration") is not None:
            out.append(z3.Int(f"{n}_duration") == r["duration"])
    return out


def check_smt2(spec, seed, solver_kwargs, pin_sets, stats=None):
    """-> findings [(rule, observed, signature extras)]; stats: dict updated with counters"""
    stats = stats if stats is not None else {}
    out = []
    tmp = tempfile.mkdtemp(prefix="c16_")
    try:
        h = B.build(spec, seed, solver_kwargs=solver_kwargs)
        path = os.path.join(tmp, "problem.smt2")
        if seed % 2 == 1:
            # history: the export is written after a solve() on the same solver (as test_export_to_smt2 does); it must
            # still denote the problem, not the problem plus the last model
            try:
                h.solver.solve()
                stats["exported_after_solve"] = stats.get("exported_after_solve", 0) + 1
            except Exception:
                stats["solve_before_export_raised"] = 1
        try:
            h.solver.export_to_smt2(path)
        except Exception as exc:
            builtin = (solver_kwargs or {}).get("optimizer") == "optimize" and bool(spec.get("objectives"))
            rule = "smt2_export_raises_for_optimize" if builtin else "smt2_export_raised"
            return [(rule, {"exception": repr(exc), "solver_kwargs": solver_kwargs}, {"exc": type(exc).__name__})]
        with open(path, "r", encoding="utf-8") as fh:
            text = fh.read()
        declared = {m.group(1).strip("|"): m.group(2) for m in _DECL_RE.finditer(text)}
        try:
            parsed = z3.parse_smt2_file(path)
        except z3.Z3Exception as exc:
            return [("smt2_does_not_parse", {"error": _short(exc)}, {})]
        fresh = z3.Solver()
        fresh.set("timeout", 15000)
        fresh.add(parsed)

        sess = probe.Session(spec, seed, solver_kwargs)
        live0, live_sched, _ = sess.check([], extras=False)
        exp0, exp_model = _check(fresh)
        stats["evaluations"] = stats.get("evaluations", 0) + 1
        if "unknown" in (live0, exp0):
            stats["inconclusive"] = stats.get("inconclusive", 0) + 1
        elif live0 != exp0:
            out.append(("smt2_verdict_differs", {"pins": [], "solver": live0, "export": exp0}, {}))
        stats["verdict_" + live0] = stats.get("verdict_" + live0, 0) + 1

        models = []
        if exp0 == "sat":
            models.append(([], exp_model))
        for pins in pin_sets:
            if not _task_only(pins) or not sess.pins_applicable(pins):
                stats["pins_skipped"] = stats.get("pins_skipped", 0) + 1
                continue
            miss = [n for n in _pin_names(pins) if n not in declared]
            if miss:
                out.append(("smt2_missing_constant", {"missing": miss, "pins": pins}, {}))
                continue
            lv, _, _ = sess.check_pins(pins, extras=False)
            ev, em = _check(fresh, [pin_by_name(p) for p in pins])
            stats["evaluations"] += 1
            if "unknown" in (lv, ev):
                stats["inconclusive"] = stats.get("inconclusive", 0) + 1
                continue
            stats["pins_compared"] = stats.get("pins_compared", 0) + 1
            stats["pinned_" + lv] = stats.get("pinned_" + lv, 0) + 1
            if lv != ev:
                out.append(("smt2_verdict_differs", {"pins": pins, "solver": lv, "export": ev}, {}))
            elif ev == "sat":
                models.append((pins, em))

        # models of the exported system are schedules
        for pins, model in models:
            missing = [f"{t['name']}_{a}" for t in spec["tasks"] for a in ("start", "end") if f"{t['name']}_{a}" not in declared]
            if missing:
                out.append(("smt2_missing_constant", {"missing": missing, "pins": pins}, {}))
                break
            sched = schedule_by_name(spec, model, declared)
            if not spec.get("assign"):
                stats["evaluations"] += 1
                stats["models_judged"] = stats.get("models_judged", 0) + 1
                bad = ref.judge(spec, sched, from_model=False).bad(("T", "TC"))
                if bad:
                    out.append(("smt2_model_invalid", {"pins": pins, "schedule": sched["tasks"], "horizon": sched["horizon"],
                                                       "broken": [[f, r, e, _short(d, 80)] for f, r, e, _, d in bad]}, {}))
            # ... and are admitted by the live solver (projection on the task variables)
            stats["evaluations"] += 1
            lv, _, _ = sess.check(adapter.pins_for_schedule(sess.h, sched, pin_horizon=False), extras=False)
            if lv == "unknown":
                stats["inconclusive"] = stats.get("inconclusive", 0) + 1
            elif lv == "unsat":
                out.append(("smt2_model_not_admitted_by_solver", {"pins": pins, "schedule": sched["tasks"], "horizon": sched["horizon"]}, {}))
        # the live solver's default schedule is a model of the exported system
        if live0 == "sat":
            stats["evaluations"] += 1
            ev, _ = _check(fresh, pins_by_name_for_schedule(spec, live_sched))
            if ev == "unknown":
                stats["inconclusive"] = stats.get("inconclusive", 0) + 1
            elif ev == "unsat":
                out.append(("smt2_solver_schedule_not_admitted_by_export", {"schedule": live_sched["tasks"]}, {}))
        return out
    finally:
        shutil.rmtree(tmp, ignore_errors=True)


def prop_smt2(ctx, case):
    spec, seed, kw = case["spec"], case["seed"], case.get("solver_kwargs")
    stats = {}
    try:
        findings = check_smt2(spec, seed, kw, case["pins"], stats)
    except B.BuildRejected as exc:
        ctx.event(f"build_rejected:{exc.stage}:{type(exc.exc).__name__}")
        return
    if findings:
        # a finding counts only if a second, independent export + comparison of the same case shows it again (a property
        # of the exported text is deterministic; one unreproducible "missing constant" was seen in 433 000 evaluations of
        # a thorough run and could not be replayed)
        try:
            again = {r for r, _, _ in check_smt2(spec, seed, kw, case["pins"], {})}
        except B.BuildRejected:
            again = set()
        dropped = [f for f in findings if f[0] not in again]
        findings = [f for f in findings if f[0] in again]
        for r, _, _ in dropped:
            ctx.event(f"unreproducible_finding_dropped:C16.smt2:{r}")
            ctx.inconclusive += 1
    ctx.evaluation(max(1, stats.get("evaluations", 0)))
    ctx.event("evaluated:C16.smt2", max(1, stats.get("evaluations", 0)))
    ctx.inconclusive += stats.get("inconclusive", 0)
    for k, v in stats.items():
        if k not in ("evaluations", "inconclusive"):
            ctx.event("smt2:" + k, v)
    ctx.event("smt2:mode:" + ("plain" if not kw else ("debug+" if kw.get("debug") and kw.get("optimizer") else "") + kw.get("optimizer", "debug") + ("+objective" if spec.get("objectives") else "")))
    for rule, obs, sig in findings:
        ctx.event(f"finding:C16.smt2:{rule}")
        ctx.violation(
            {"check": "C16.smt2", "rule": rule, "spec": spec, "seed": seed, "solver_kwargs": kw, "pins": case["pins"],
             "observed": obs, "signature": dict({"rule": rule}, **sig)}
        )
    if spec["constraints"] and stats.get("pins_compared", 0) >= 1:
        ctx.nontrivial_case({"spec": spec, "seed": seed, "kw": kw, "pins": case["pins"]})
        ctx.event("nontrivial:smt2")
        if not findings:
            ctx.sample({"check": "C16.smt2", "spec": spec, "solver_kwargs": kw, "pins_compared": stats.get("pins_compared")}, cap=1)


# =============================================================================================
# E. object JSON round trips
# =============================================================================================
_NAME = st.text(alphabet="abTW019_ -.é\"", min_size=1, max_size=6)
_NUM = st.one_of(st.integers(-3, 6), st.sampled_from([0.5, 1.5, -2.25, 2.0]))


@st.composite
def function_params(draw):
    k = draw(st.sampled_from(["const", "lin", "poly"]))
    p = {"kind": k}
    if draw(st.booleans()):
        p["name"] = "f_" + draw(_NAME)
    if k == "const":
        p["value"] = draw(_NUM)
    elif k == "lin":
        p["slope"] = draw(_NUM)
        p["intercept"] = draw(_NUM)
    else:
        p["coefficients"] = draw(st.lists(_NUM, min_size=1, max_size=4))
    return p


@st.composite
def object_params(draw):
    kind = draw(st.sampled_from(["fixed", "zero", "var", "worker", "worker", "cumulative", "function", "function", "function"]))
    if kind == "function":
        return draw(function_params())
    p = {"kind": kind, "name": draw(_NAME)}
    if kind in ("fixed", "zero", "var"):
        if draw(st.booleans()):
            p["optional"] = draw(st.booleans())
        if draw(st.booleans()):
            p["work_amount"] = draw(st.integers(0, 5))
        if draw(st.booleans()):
            p["release_date"] = draw(st.integers(-1, 6))
        if draw(st.booleans()):
            p["due_date"] = draw(st.integers(0, 9))
            p["due_date_is_deadline"] = draw(st.booleans())
        if draw(st.booleans()):
            p["priority"] = draw(st.integers(0, 4))
        if kind == "fixed":
            p["duration"] = draw(st.integers(1, 6))
        if kind == "var":
            if draw(st.booleans()):
                p["min_duration"] = draw(st.integers(0, 3))
            if draw(st.booleans()):
                p["max_duration"] = draw(st.integers(3, 6))
            if draw(st.booleans()):
                p["allowed_durations"] = draw(st.lists(st.integers(1, 6), min_size=1, max_size=3))
    elif kind == "worker":
        if draw(st.booleans()):
            p["productivity"] = draw(st.integers(0, 4))
        if draw(st.booleans()):
            p["cost"] = draw(function_params())
    else:
        p["size"] = draw(st.integers(2, 4))
        if draw(st.booleans()):
            p["productivity"] = draw(st.integers(1, 5))
        if draw(st.booleans()):
            p["cost"] = {"kind": "const", "value": draw(st.integers(0, 7))}
    return p


_FUNC_CLASS = {"const": "ConstantFunction", "lin": "LinearFunction", "poly": "PolynomialFunction"}
_OBJ_CLASS = {"fixed": "FixedDurationTask", "zero": "ZeroDurationTask", "var": "VariableDurationTask", "worker": "Worker", "cumulative": "CumulativeWorker"}


def _make_function(p):
    kw = {k: v for k, v in p.items() if k != "kind"}
    return getattr(ps, _FUNC_CLASS[p["kind"]])(**kw)


def _values(f):
    out = []
    for x in range(6):
        v = f(x)
        if isinstance(v, bool) or not isinstance(v, (int, float)):
            v = ("non-numeric", repr(v))
        out.append(v)
    return out


def check_roundtrip(p, seed=0):
    """-> findings [(rule, observed, signature extras)]"""
    from .. import env

    env.pin_case(seed)
    out = []
    if p["kind"] in _FUNC_CLASS:
        cls = getattr(ps, _FUNC_CLASS[p["kind"]])
        f1 = _make_function(p)
        try:
            txt = f1.to_json()
            json.loads(txt)
            f2 = cls.model_validate_json(txt)
        except Exception as exc:
            return [("function_roundtrip_raised", {"exception": repr(exc)}, {"exc": type(exc).__name__, "class": cls.__name__})]
        if type(f2) is not type(f1):
            out.append(("function_roundtrip_class", {"before": type(f1).__name__, "after": type(f2).__name__}, {"class": cls.__name__}))
        d1, d2 = f1.model_dump(), f2.model_dump()
        if not same(d1, d2):
            out.append(("function_roundtrip_fields", {"before": d1, "after": d2}, {"class": cls.__name__}))
        v1, v2 = _values(f1), _values(f2)
        if v1 != v2:
            out.append(("function_roundtrip_values", {"before": v1, "after": v2}, {"class": cls.__name__}))
        return out

    cname = _OBJ_CLASS[p["kind"]]
    cls = getattr(ps, cname)
    ps.SchedulingProblem(name="C16_origin")
    kw = {k: v for k, v in p.items() if k not in ("kind", "cost")}
    if p.get("cost") is not None:
        kw["cost"] = _make_function(p["cost"])
    o1 = cls(**kw)  # generated by construction: a rejection here is a harness matter
    try:
        txt = o1.to_json()
        json.loads(txt)
    except Exception as exc:
        return [("object_to_json_raised", {"exception": repr(exc)}, {"exc": type(exc).__name__, "class": cname})]
    p2 = ps.SchedulingProblem(name="C16_copy")
    try:
        o2 = p2.add_from_json(txt)
    except Exception as exc:
        return [("object_add_from_json_raised", {"exception": _short(exc, 400), "json": json.loads(txt)}, {"exc": type(exc).__name__, "class": cname})]
    if type(o2) is not type(o1):
        out.append(("object_roundtrip_class", {"before": type(o1).__name__, "after": type(o2).__name__}, {"class": cname}))
        return out
    d1, d2 = o1.model_dump(), o2.model_dump()
    if not same(d1, d2):
        diff = {k: [d1.get(k), d2.get(k)] for k in sorted(set(d1) | set(d2)) if not same(d1.get(k, "<missing>"), d2.get(k, "<missing>"))}
        out.append(("object_roundtrip_fields", {"differs": diff}, {"class": cname, "fields": sorted(diff)}))
    registry = {"worker": p2.workers, "cumulative": p2.cumulative_workers}.get(p["kind"], p2.tasks)
    if o1.name not in registry or registry[o1.name] is not o2:
        out.append(("object_not_added_to_problem", {"name": o1.name, "registered": list(registry)}, {"class": cname}))
    if p["kind"] in ("worker", "cumulative"):
        v1, v2 = _values(o1.cost), _values(o2.cost)
        if v1 != v2:
            out.append(("object_roundtrip_cost_values", {"before": v1, "after": v2}, {"class": cname}))
    return out


def prop_roundtrip(ctx, case):
    p, seed = case
    ctx.evaluation()
    ctx.event("evaluated:C16.roundtrip")
    ctx.event("roundtrip:" + p["kind"])
    findings = check_roundtrip(p, seed)
    ctx.nontrivial_case({"roundtrip": p})
    ctx.event("nontrivial:roundtrip")
    for rule, obs, sig in findings:
        ctx.event(f"finding:C16.roundtrip:{rule}")
        ctx.violation(
            {"check": "C16.roundtrip", "rule": rule, "spec": p, "seed": seed, "pins": None, "observed": obs,
             "signature": dict({"rule": rule}, **sig)}
        )
    if not findings:
        ctx.sample({"check": "C16.roundtrip", "object": p}, cap=3)


# =============================================================================================
def run_shard(ctx):
    n_sol, n_smt, n_obj = {"quick": (110, 50, 250), "thorough": (1100, 500, 2500)}[ctx.tier]
    run_hypothesis(ctx, solution_cases(PROF_SOL), prop_solutions, max_examples=n_sol)
    run_hypothesis(ctx, smt_cases(PROF_SMT_FREE), prop_smt2, max_examples=n_smt)
    run_hypothesis(ctx, smt_cases(PROF_SMT_MIXED), prop_smt2, max_examples=n_smt)
    run_hypothesis(ctx, st.tuples(object_params(), st.integers(0, 2**30)), prop_roundtrip, max_examples=n_obj)


def replay(record):
    """re-execute the recorded sub-check; violated iff a finding with the recorded rule id comes back"""
    check, rule = record.get("check"), record.get("rule")
    spec, seed = record["spec"], record.get("seed", 0)
    if check in SOLUTION_CHECKS:
        if record.get("solution") is not None:
            # z3 may return another model in another process: the exported solution itself is recorded
            h = B.build(spec, seed, solver_kwargs=(record.get("origin") or {}).get("solver_kwargs"))
            sol = load_solution(h.problem, record["solution"])
        else:
            h, sol = make_solution(spec, seed, record["origin"])
            if h is None:
                return False, f"no solution to export any more ({sol})"
        findings = run_solution_check(check, sol, h)
    elif check == "C16.smt2":
        findings = check_smt2(spec, seed, record.get("solver_kwargs"), record.get("pins") or [])
    elif check == "C16.roundtrip":
        findings = check_roundtrip(spec, seed)
    else:
        raise ValueError(f"C16: unknown check {check!r} in replay record")
    hits = [(r, o) for r, o, _ in findings if r == rule]
    if hits:
        return True, {"rule": rule, "observed": hits[0][1]}
    others = sorted({r for r, _, _ in findings})
    return False, "export agrees with the data" + (f" (other findings: {others})" if others else "")
