"""C17 - the Gantt chart draws exactly the reported assignments at the right place.

Round trip: a SchedulingSolution is rendered by ``render_gantt_matplotlib(show_plot=False)``, the artists of the
resulting figure are read back (rectangles of the PolyCollections of the gantt axes, y tick labels, Line2D data of the
buffer axes) and compared with what the *solution object* reports.  Nothing that the property statement does not
mention (colours, texts, legend, x ticks, titles) is looked at.
"""
import math
from datetime import datetime, timedelta

from hypothesis import strategies as st

from .. import build as B, probe, spec as S
from ..env import ps
from ..runner import digest, run_hypothesis

ID = "C17"
TECHNIQUE = "Hypothesis-generated synthetic solutions; rendered artists re-read and compared with the solution (round trip)"
RULE = (
    "(a) synthetic SchedulingSolution objects built without the solver from a generated JSON description: 1-6 tasks "
    "(fixed/variable/zero duration, optional ones possibly unscheduled and parked at their own negative instant, in no "
    "assignment list), 0-5 resources (plain workers never double-booked; cumulative workers carrying up to `size` "
    "overlapping assignments; some assignments cover only a sub-interval of the task as with dynamic/delayed resources), "
    "0-2 buffers (len(level) = len(level_change_times)+1, times strictly increasing in [0, horizon]), 0-2 indicators, "
    "calendar none / delta_time / delta_time+start_time / start_time only, shuffled names so that row order differs from "
    "name order, horizon >= every end; (b) a smaller number of solutions returned by the public solve() on generated "
    "problem specs (resources, cumulative workers, selections, buffers, optional tasks; calendar added for 1 in 3). One "
    "render per case, mode drawn from {Resource, Task}. Non-trivial = the rendered view has >= 2 rows and (a zero-length "
    "bar or an unscheduled task or a buffer or >= 2 bars on one row); distinct by SHA-1 of (solution description, mode)."
)
ASSUMPTIONS = [
    "matplotlib's Axes.collections / PolyCollection.get_paths() / Line2D.get_xdata() return, in data coordinates, what "
    "would be painted (Agg backend, no rasterisation except for 1 case in 8 where fig.canvas.draw() is also required to succeed)",
    "the gantt axes is the first axes of the current figure and every other axes is a buffer chart",
    "a rectangle is identified by the bounding box of the vertices of its path; all vertices must lie on the corners of that box",
    "row i of the chart is the band 2i..2i+2 of the y axis labelled by the i-th y tick label (the layout stated in DESIGN.md C17)",
    "step-function comparison ignores zero-width steps (a level change at instant 0 or at the horizon), tolerates vertical "
    "connectors between steps and merges touching steps of equal level; geometric tolerance 1e-9",
    "solver-produced solutions that are not self-consistent (end-start != duration for a scheduled task, malformed "
    "buffer report) are skipped and counted, they belong to other properties",
]

TOL = 1e-9
MODES = ("Resource", "Task")
START_TIMES = ["2024-01-01T08:00:00", "2023-12-31T23:30:00", "2021-02-28T00:00:00"]
DELTAS_S = [60, 900, 3600, 86400]


# ---------------------------------------------------------------------------------------------
# generation of synthetic solution descriptions (plain JSON)
# ---------------------------------------------------------------------------------------------
def _conflicts(a, b):
    """Half-open overlap; a zero-length interval conflicts only when strictly inside the other."""
    return a[0] < b[1] and b[0] < a[1]


def _fits(existing, new, capacity):
    """Would adding ``new`` keep the number of simultaneously running assignments <= capacity?"""
    if capacity == 1:
        return not any(_conflicts(new, e) for e in existing)
    allv = existing + [new]
    for probe_iv in allv:
        # the load is maximal at the start of some interval
        p = probe_iv[0]
        load = sum(1 for iv in allv if (iv[0] <= p < iv[1]) or (iv[0] == iv[1] == p))
        if load > capacity:
            return False
    return True


@st.composite
def synthetic_cases(draw):
    pct = lambda p: draw(st.integers(0, 99)) < p  # noqa: E731
    n_tasks = draw(st.integers(1, 6))
    n_res = draw(st.sampled_from([0, 1, 2, 2, 3, 3, 4, 5]))
    tnames = draw(st.permutations([f"T{i+1}" for i in range(n_tasks)]))
    p_optional = draw(st.sampled_from([0, 30, 60]))
    p_zero = draw(st.sampled_from([0, 15, 40]))
    span = draw(st.sampled_from([3, 6, 9]))

    tasks = []
    for k, name in enumerate(tnames):
        if pct(p_zero):
            kind, dur = "ZeroDurationTask", 0
        elif pct(65):
            kind, dur = "FixedDurationTask", draw(st.integers(1, 4))
        else:
            kind, dur = "VariableDurationTask", draw(st.integers(0, 4))
        optional = pct(p_optional)
        scheduled = (not optional) or pct(50)
        if scheduled:
            start = draw(st.integers(0, span))
            end = start + dur
        else:
            # the library parks every unscheduled task on its own negative instant, start == end, and reports the
            # nominal duration of a fixed duration task (0 for the others)
            start = end = -(k + 1)
            if kind != "FixedDurationTask":
                dur = 0
        tasks.append(
            {"name": name, "type": kind, "start": start, "end": end, "duration": dur, "optional": optional,
             "scheduled": scheduled, "assigned": []}
        )

    rnames = draw(st.permutations([f"R{i+1}" for i in range(n_res)]))
    p_assign = draw(st.sampled_from([25, 50, 75]))
    resources = []
    for name in rnames:
        cumulative = pct(35)
        size = draw(st.integers(2, 3)) if cumulative else 1
        res = {"name": ("C" if cumulative else "W") + name, "type": "CumulativeWorker" if cumulative else "Worker",
               "size": size, "assignments": []}
        for t in tasks:
            if not t["scheduled"] or not pct(p_assign):
                continue
            s, e = t["start"], t["end"]
            if e > s and pct(15):
                # resource busy during a part of the task only (dynamic / delay_in / early_out)
                s = draw(st.integers(s, e))
                e = draw(st.integers(s, e))
            ivs = [(a[1], a[2]) for a in res["assignments"]]
            if _fits(ivs, (s, e), size):
                res["assignments"].append([t["name"], s, e])
                t["assigned"].append(res["name"])
        resources.append(res)

    # horizon 0 is what the solver reports for a problem without horizon whose tasks all sit at instant 0 / are unscheduled
    max_end = max([t["end"] for t in tasks if t["scheduled"]] + [0])
    horizon = max_end + draw(st.sampled_from([0, 0, 1, 3]))
    problem_horizon = horizon if horizon >= 1 and pct(75) else None

    buffers = []
    for b in range(draw(st.sampled_from([0, 0, 0, 1, 1, 2]))):
        k = draw(st.integers(0, min(4, horizon + 1)))
        times = sorted(draw(st.lists(st.integers(0, horizon), min_size=k, max_size=k, unique=True)))
        levels = draw(st.lists(st.integers(-3, 12), min_size=k + 1, max_size=k + 1))
        buffers.append({"name": f"B{b+1}", "times": times, "levels": levels})

    calendar = draw(st.sampled_from(["none", "none", "delta", "delta+start", "delta+start", "start"]))
    delta_s = draw(st.sampled_from(DELTAS_S)) if "delta" in calendar else None
    start_time = draw(st.sampled_from(START_TIMES)) if "start" in calendar else None

    indicators = {}
    for i in range(draw(st.sampled_from([0, 0, 1, 2]))):
        indicators[f"I{i+1}"] = draw(st.integers(-5, 50))

    return {
        "origin": "synthetic",
        "name": "P",
        "horizon": horizon,
        "problem_horizon": problem_horizon,
        "delta_time_s": delta_s,
        "start_time": start_time,
        "tasks": tasks,
        "resources": resources,
        "buffers": buffers,
        "indicators": indicators,
    }


# ---------------------------------------------------------------------------------------------
# JSON description <-> SchedulingSolution
# ---------------------------------------------------------------------------------------------
def build_solution(case):
    """Turn the JSON description into a real SchedulingSolution (same construction steps as the solver's report)."""
    from processscheduler.solution import BufferSolution, ResourceSolution, SchedulingSolution, TaskSolution

    pk = {"name": case.get("name", "P")}
    if case.get("problem_horizon") is not None:
        pk["horizon"] = case["problem_horizon"]
    if case.get("delta_time_s") is not None:
        pk["delta_time"] = timedelta(seconds=case["delta_time_s"])
    if case.get("start_time") is not None:
        pk["start_time"] = datetime.fromisoformat(case["start_time"])
    problem = ps.SchedulingProblem(**pk)
    sol = SchedulingSolution(problem=problem)
    sol.horizon = case["horizon"]
    for t in case["tasks"]:
        ts = TaskSolution(name=t["name"])
        ts.type = t["type"]
        ts.start = t["start"]
        ts.end = t["end"]
        ts.duration = t["duration"]
        ts.optional = t["optional"]
        ts.scheduled = t["scheduled"]
        ts.assigned_resources = list(t["assigned"])
        if problem.delta_time is not None:
            ts.duration_time = ts.duration * problem.delta_time
            if problem.start_time is not None:
                ts.start_time = problem.start_time + ts.start * problem.delta_time
            else:
                ts.start_time = ts.start * problem.delta_time
            ts.end_time = ts.start_time + ts.duration_time
        sol.add_task_solution(ts)
    for r in case["resources"]:
        rs = ResourceSolution(name=r["name"])
        rs.type = r["type"]
        rs.assignments = [(a[0], a[1], a[2]) for a in r["assignments"]]
        sol.add_resource_solution(rs)
    for b in case["buffers"]:
        bs = BufferSolution(name=b["name"])
        bs.level_change_times = list(b["times"])
        bs.level = list(b["levels"])
        sol.add_buffer_solution(bs)
    for k, v in case.get("indicators", {}).items():
        sol.add_indicator_solution(k, v)
    return sol


def solution_to_case(sol, origin="solved"):
    """JSON description of an existing solution object (used for solver-produced solutions)."""
    p = sol.problem
    return {
        "origin": origin,
        "name": p.name,
        "horizon": int(sol.horizon),
        "problem_horizon": p.horizon if isinstance(p.horizon, int) else None,
        "delta_time_s": None if p.delta_time is None else int(p.delta_time.total_seconds()),
        "start_time": None if p.start_time is None else p.start_time.isoformat(),
        "tasks": [
            {"name": n, "type": t.type, "start": int(t.start), "end": int(t.end), "duration": int(t.duration),
             "optional": bool(t.optional), "scheduled": bool(t.scheduled), "assigned": list(t.assigned_resources)}
            for n, t in sol.tasks.items()
        ],
        "resources": [
            {"name": n, "type": r.type, "size": None, "assignments": [[a[0], int(a[1]), int(a[2])] for a in r.assignments]}
            for n, r in sol.resources.items()
        ],
        "buffers": [
            {"name": n, "times": [int(x) for x in b.level_change_times], "levels": [int(x) for x in b.level]}
            for n, b in sol.buffers.items()
        ],
        "indicators": {k: int(v) for k, v in sol.indicators.items()},
    }


def inconsistency(sol):
    """None when the solution object is self-consistent as far as the expected drawing is concerned."""
    H = sol.horizon
    if not isinstance(H, int) or H < 0:
        # seen with solve(): no horizon given and every task unscheduled => reported horizon is a negative instant
        return "negative_horizon"
    for n, t in sol.tasks.items():
        if n != t.name:
            return "task_key"
        if t.scheduled:
            if t.start < 0 or t.end - t.start != t.duration or t.duration < 0:
                return "scheduled_task_span"
            if t.end > H:
                return "task_beyond_horizon"
    for n, r in sol.resources.items():
        if n != r.name:
            return "resource_key"
        for tn, s, e in r.assignments:
            if tn not in sol.tasks or not sol.tasks[tn].scheduled:
                return "assignment_of_unknown_or_unscheduled_task"
            if not 0 <= s <= e <= H:
                return "assignment_span"
    for n, b in sol.buffers.items():
        if len(b.level) != len(b.level_change_times) + 1:
            return "buffer_lengths"
        xs = [0] + list(b.level_change_times) + [H]
        if any(x1 < x0 for x0, x1 in zip(xs, xs[1:])):
            return "buffer_times"
    return None


# ---------------------------------------------------------------------------------------------
# expected drawing, from the solution object only
# ---------------------------------------------------------------------------------------------
def _bar(s, e, row):
    if e == s:
        return (s - 0.05, s + 0.05, 2.0 * row, 2.0 * row + 2.0)
    return (float(s), float(e), 2.0 * row, 2.0 * row + 2.0)


def effective_mode(sol, mode):
    # documented fallback: without resources there is nothing to show in resource view
    return "Task" if not sol.resources else mode


def expected_drawing(sol, mode):
    mode = effective_mode(sol, mode)
    bars, rows = [], []
    if mode == "Resource":
        for i, (rname, rs) in enumerate(sol.resources.items()):
            rows.append(rname)
            for _tn, s, e in rs.assignments:
                bars.append(_bar(s, e, i))
    else:
        for i, (tname, ts) in enumerate((n, t) for n, t in sol.tasks.items() if t.scheduled):
            rows.append(tname)
            bars.append(_bar(ts.start, ts.end, i))
    steps = []
    for b in sol.buffers.values():
        xs = [0] + list(b.level_change_times) + [sol.horizon]
        steps.append(_norm_steps([(float(xs[k]), float(xs[k + 1]), float(y)) for k, y in enumerate(b.level)]))
    return {"mode": mode, "rows": rows, "bars": bars, "steps": steps}


def _norm_steps(segs):
    """Drop zero-width steps, merge touching steps of equal level, sort."""
    segs = sorted((y, x0, x1) for x0, x1, y in segs if x1 - x0 > TOL)
    out = []
    for y, x0, x1 in segs:
        if out and abs(out[-1][0] - y) <= TOL and x0 <= out[-1][2] + TOL:
            out[-1][2] = max(out[-1][2], x1)
        else:
            out.append([y, x0, x1])
    return [(x0, x1, y) for y, x0, x1 in out]


# ---------------------------------------------------------------------------------------------
# reading the figure back
# ---------------------------------------------------------------------------------------------
def read_bars(ax):
    """-> (list of (x0, x1, y0, y1), list of malformed paths)"""
    bars, bad = [], []
    for coll in ax.collections:
        if not hasattr(coll, "get_paths"):
            continue
        for path in coll.get_paths():
            v = [(float(x), float(y)) for x, y in path.vertices]
            if not v:
                continue
            x0, x1 = min(p[0] for p in v), max(p[0] for p in v)
            y0, y1 = min(p[1] for p in v), max(p[1] for p in v)
            on_corners = all(
                min(abs(x - x0), abs(x - x1)) <= TOL and min(abs(y - y0), abs(y - y1)) <= TOL for x, y in v
            )
            corners = {(abs(x - x0) <= TOL, abs(y - y0) <= TOL) for x, y in v}
            if not on_corners or len(corners) != 4 or any(math.isnan(c) for p in v for c in p):
                bad.append(v)
            else:
                bars.append((x0, x1, y0, y1))
    return bars, bad


def read_steps(ax):
    """-> (list of normalised step lists, one per non-empty line, list of non-step descriptions)"""
    import numpy as np

    out, bad = [], []
    for line in ax.lines:
        xs = np.asarray(line.get_xdata(orig=True), dtype=float)
        ys = np.asarray(line.get_ydata(orig=True), dtype=float)
        if len(xs) == 0:
            continue
        if line.get_drawstyle() != "default":
            raise NotImplementedError(f"C17 harness cannot interpret Line2D drawstyle {line.get_drawstyle()!r}")
        segs = []
        pts = list(zip(xs.tolist(), ys.tolist()))
        for (xa, ya), (xb, yb) in zip(pts, pts[1:]):
            if any(math.isnan(c) for c in (xa, ya, xb, yb)):
                continue
            if abs(ya - yb) <= TOL:
                segs.append((min(xa, xb), max(xa, xb), ya))
            elif abs(xa - xb) <= TOL:
                continue  # vertical connector
            else:
                bad.append([[xa, ya], [xb, yb]])
        out.append(_norm_steps(segs))
    return out, bad


def _close(a, b):
    return len(a) == len(b) and all(abs(x - y) <= TOL for x, y in zip(a, b))


def _multiset_diff(expected, observed, key=lambda r: tuple(round(c, 6) for c in r)):
    """-> (missing, extra) with a 1e-9 tolerance; both lists of tuples of floats"""
    exp = sorted(expected, key=key)
    obs = sorted(observed, key=key)
    missing, extra = [], []
    i = j = 0
    while i < len(exp) and j < len(obs):
        if _close(exp[i], obs[j]):
            i += 1
            j += 1
        elif key(exp[i]) < key(obs[j]):
            missing.append(exp[i])
            i += 1
        else:
            extra.append(obs[j])
            j += 1
    missing += exp[i:]
    extra += obs[j:]
    return missing, extra


def _flat(steps):
    return tuple(c for seg in steps for c in seg)


def judge(sol, mode, rasterise=False):
    """Render and compare.  -> None when the property holds, else {"rule": ..., "observed": {...}}"""
    import matplotlib.pyplot as plt
    from processscheduler.plotter import render_gantt_matplotlib

    exp = expected_drawing(sol, mode)
    plt.close("all")
    try:
        try:
            render_gantt_matplotlib(sol, show_plot=False, render_mode=mode)
        except Exception as exc:  # the code under test failed on a valid solution
            return {"rule": "render_raised", "observed": {"exception": f"{type(exc).__name__}: {exc}", "expected": _js(exp)}}
        if len(plt.get_fignums()) < 1:
            return {"rule": "no_figure", "observed": {"figures": 0}}
        fig = plt.gcf()
        axes = list(fig.axes)
        if not axes:
            return {"rule": "no_axes", "observed": {"axes": 0}}
        gantt = axes[0]

        # bars
        bars, malformed = read_bars(gantt)
        if malformed:
            return {"rule": "bar_not_a_rectangle", "observed": {"paths": malformed[:3]}}
        missing, extra = _multiset_diff(exp["bars"], bars)
        if missing or extra:
            rule = "bar_count_differs" if len(bars) != len(exp["bars"]) else "bar_geometry_differs"
            return {
                "rule": rule,
                "observed": {"effective_mode": exp["mode"], "expected_bars": sorted(exp["bars"]), "drawn_bars": sorted(bars),
                             "missing": missing, "unexpected": extra},
            }

        # rows: the i-th label sits inside the band 2i..2i+2
        labels = [t.get_text() for t in gantt.get_yticklabels()]
        ticks = [float(y) for y in gantt.get_yticks()]
        ok = labels == exp["rows"] and len(ticks) == len(labels) and all(2 * i < y < 2 * i + 2 for i, y in enumerate(ticks))
        if not ok:
            return {"rule": "row_labels_differ", "observed": {"effective_mode": exp["mode"], "expected_rows": exp["rows"],
                                                             "labels": labels, "tick_positions": ticks}}

        # buffers
        if exp["steps"]:
            if len(axes) < 2:
                return {"rule": "buffer_axes_missing", "observed": {"axes": len(axes), "buffers": len(exp["steps"])}}
            lines, nonstep = [], []
            for ax in axes[1:]:
                l, b = read_steps(ax)
                lines += l
                nonstep += b
            if nonstep:
                return {"rule": "buffer_line_not_a_step_function", "observed": {"sloped_segments": nonstep[:4]}}
            if len(lines) != len(exp["steps"]):
                return {"rule": "buffer_line_count_differs", "observed": {"expected": len(exp["steps"]), "drawn": len(lines)}}
            missing, extra = _multiset_diff([_flat(s) for s in exp["steps"]], [_flat(s) for s in lines])
            if missing or extra:
                return {"rule": "buffer_steps_differ", "observed": {"expected_steps": exp["steps"], "drawn_steps": lines}}

        if rasterise:
            try:
                fig.canvas.draw()
            except Exception as exc:
                return {"rule": "draw_raised", "observed": {"exception": f"{type(exc).__name__}: {exc}"}}
        return None
    finally:
        plt.close("all")


def _js(exp):
    return {"mode": exp["mode"], "rows": exp["rows"], "bars": [list(b) for b in exp["bars"]], "steps": exp["steps"]}


# ---------------------------------------------------------------------------------------------
# accounting
# ---------------------------------------------------------------------------------------------
def classify(ctx, sol, mode, case):
    exp = expected_drawing(sol, mode)
    ctx.event("origin:" + case.get("origin", "?"))
    ctx.event("mode:" + mode + ("" if exp["mode"] == mode else "->Task(no resources)"))
    zero = any(abs((b[1] - b[0]) - 0.1) <= TOL for b in exp["bars"])
    unsched = any(not t.scheduled for t in sol.tasks.values())
    buf = bool(sol.buffers)
    per_row = {}
    for b in exp["bars"]:
        per_row[b[2]] = per_row.get(b[2], 0) + 1
    multi = any(v >= 2 for v in per_row.values())
    overlap = False
    for r in sol.resources.values():
        ivs = [(a[1], a[2]) for a in r.assignments]
        overlap = overlap or any(_conflicts(ivs[i], ivs[j]) for i in range(len(ivs)) for j in range(i + 1, len(ivs)))
    p = sol.problem
    if p.delta_time is not None:
        cal = "delta+start" if p.start_time is not None else "delta"
    else:
        cal = "start_only" if p.start_time is not None else "none"
    ctx.event("calendar:" + cal)
    ctx.event("rows:" + ("0" if not exp["rows"] else "1" if len(exp["rows"]) == 1 else "2+"))
    ctx.event("bars:" + ("0" if not exp["bars"] else "1-3" if len(exp["bars"]) <= 3 else "4+"))
    if zero:
        ctx.event("has_zero_length_bar")
    if unsched:
        ctx.event("has_unscheduled_task")
    if buf:
        ctx.event("has_buffer")
        if any(b.level_change_times and (b.level_change_times[0] == 0 or b.level_change_times[-1] == sol.horizon)
               for b in sol.buffers.values()):
            ctx.event("has_buffer_change_at_0_or_horizon")
    if multi:
        ctx.event("has_row_with_2+_bars")
    if overlap:
        ctx.event("has_cumulative_overlap")
    if any(r.type == "CumulativeWorker" for r in sol.resources.values()):
        ctx.event("has_cumulative_worker")
    if exp["mode"] == "Resource" and any(
        (s, e) != (sol.tasks[tn].start, sol.tasks[tn].end) for r in sol.resources.values() for tn, s, e in r.assignments
    ):
        ctx.event("has_partial_assignment")
    if sol.indicators:
        ctx.event("has_indicator")
    nontrivial = len(exp["rows"]) >= 2 and (zero or unsched or buf or multi)
    if nontrivial:
        ctx.event("nontrivial")
        ctx.nontrivial_case({"case": case, "mode": mode})
    return nontrivial


def _verdict(ctx, sol, mode, case):
    classify(ctx, sol, mode, case)
    ctx.sample({"case": case, "mode": mode}, cap=3)
    rasterise = int(digest({"case": case, "mode": mode}), 16) % 8 == 0
    if rasterise:
        ctx.event("rasterised")
    res = judge(sol, mode, rasterise=rasterise)
    ctx.evaluation()
    if res is not None:
        ctx.violation(
            {"check": "C17.render", "rule": res["rule"], "case": case, "mode": mode, "observed": res["observed"],
             "signature": {"rule": res["rule"], "origin": case.get("origin")}}
        )


def prop_synthetic(ctx, drawn):
    case, mode = drawn
    sol = build_solution(case)
    why = inconsistency(sol)
    if why is not None:  # the generator promised valid solutions
        raise AssertionError(f"C17 generator produced an inconsistent solution ({why}): {case}")
    _verdict(ctx, sol, mode, case)


_SOLVED = {}  # (spec, seed, cal) digest -> solution description or skip label


def prop_solved(ctx, drawn):
    spec, seed, mode, cal = drawn
    spec = dict(spec)
    if cal == 1:
        spec["delta_time_s"] = 900
    elif cal == 2:
        spec["delta_time_s"] = 3600
        spec["start_time"] = START_TIMES[seed % len(START_TIMES)]
    # solve() does not return the same schedule when the same problem is solved twice in one process (z3 state), but
    # Hypothesis re-executes a failing example and insists on the same outcome: the first answer is kept
    key = digest([spec, seed])
    if key in _SOLVED:
        case = _SOLVED[key]
        if isinstance(case, str):
            ctx.event(case)
            return
        _verdict(ctx, build_solution(case), mode, case)
        return
    try:
        h, sol, exc = probe.solve_public(spec, seed)
    except B.BuildRejected as rej:
        label = f"solved:build_rejected:{rej.stage}"
    else:
        if exc is not None:
            label = "solved:solve_raised:" + type(exc).__name__  # judged by other properties
        elif sol is False or sol is None:
            label = "solved:no_solution"
        else:
            why = inconsistency(sol)
            label = None if why is None else "solved:skipped_inconsistent_solution:" + why
    if label is not None:
        _SOLVED[key] = label
        ctx.event(label)
        return
    case = _SOLVED[key] = solution_to_case(sol)
    _verdict(ctx, sol, mode, case)  # the object returned by solve() itself is rendered


def run_shard(ctx):
    n_syn = {"quick": 95, "thorough": 950}[ctx.tier]
    n_solved = {"quick": 8, "thorough": 80}[ctx.tier]
    run_hypothesis(ctx, st.tuples(synthetic_cases(), st.sampled_from(MODES)), prop_synthetic, max_examples=n_syn)
    prof = S.profile(p_resources=80, buffers=(0, 1), p_optional=40, task_constraints=(0, 1), resource_constraints=(0, 0),
                     optional_rules=(0, 0), p_no_horizon=10)
    strat = st.tuples(S.specs(prof), st.integers(0, 2**20), st.sampled_from(MODES), st.sampled_from([0, 0, 1, 2]))
    run_hypothesis(ctx, strat, prop_solved, max_examples=n_solved)


def replay(record):
    sol = build_solution(record["case"])
    res = judge(sol, record["mode"], rasterise=record.get("rule") == "draw_raised")
    if res is None:
        return False, "rendered artists match the solution"
    return True, f"{res['rule']}: {res['observed']}"
