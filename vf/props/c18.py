"""C18 - ill-formed model elements are rejected at creation, well-formed ones accepted.

A case is a plain JSON description ``{"element": <class name>, "params": {...}, "name_mode": ...,
"context": ...}``.  ``make(case)`` performs it against the real API (fresh SchedulingProblem per
case), ``judge(case)`` is the decision table taken clause by clause from the property statement and
never looks at the library.  The grid is finite and enumerated exhaustively; Hypothesis adds
larger integers and varied contexts through the very same ``judge``/``make`` pair.
"""
import itertools

from ..env import ps
import processscheduler.base as ps_base
from ..runner import Violation, run_hypothesis, canon

ID = "C18"
TECHNIQUE = "exhaustive boundary-value grid + Hypothesis-drawn tuples against a decision table"
EXHAUSTIVE = True
RULE = (
    "per element class a finite boundary-value grid (itertools.product over the parameters named by the property "
    "statement: fixed duration {-1,0,1,2}, work amount / priority / minimum duration {-1,0,1}, cumulative size {-1..3}, "
    "selection list length {0..4} x number to select {-1..5}, optional flags of the tasks / constraints handed to the "
    "optional-task and force-apply rules, assignment state of the resource handed to the 7 resource constraints "
    "(unassigned, member of an unassigned selection, assigned directly / dynamically / through a selection / as cumulative, "
    "to 1 or 2 tasks), name mode {unique, omitted, duplicate of same class, duplicate of another class of the same kind, "
    "near miss, same name in another kind} for all 8 registries) x problem context {fresh, already populated, a second "
    "problem after one that used the same names, no problem exists}; every tuple is enumerated in every run (split "
    "index % nshards), then Hypothesis draws further tuples with integers up to 1e12 and randomly sized populated "
    "contexts. Verdict per tuple from the decision table: MUST_RAISE if at least one clause of the statement is violated, "
    "MUST_ACCEPT if none is and nothing about the tuple is left open by the statement, otherwise NOT_JUDGED (executed and "
    "counted, never judged). Non-trivial = judged tuple on a boundary: exactly one clause violated and by its boundary "
    "value (0 for a duration, -1 for an amount, size 1, one worker listed, n = len+1, n = 0, a mandatory task / constraint, "
    "zero assigned tasks, the duplicate name, no problem), or accepted with at least one coordinate on the valid edge of a "
    "clause (duration 1, amount 0, size 2, two workers, n = len, n = 1, all optional, exactly one assigned task, near-miss "
    "or other-kind name). Distinct by SHA-1 of the JSON tuple."
)
ASSUMPTIONS = [
    "rejected = the constructor call raises any Exception; accepted = it returns an instance of the requested class",
    "prerequisite elements of a case (tasks, workers, assignments, siblings carrying a name) are well-formed by construction; "
    "if the library rejects one of them this is reported as a rejected well-formed element, not as a harness error",
    "the statement does not decide: non-integer / bool values for integer parameters, max_duration and allowed_durations "
    "interplay, worker productivity <= 0, a buffer without any level, indicator bounds without any bound, equal names across "
    "the three resource registries, names derived by the library itself, OptionalTasksDependency with a mandatory task_1, "
    "nb_tasks_to_schedule / nb_constraints_to_apply outside 1..m, selections listing a cumulative worker when n lies between "
    "the list length and the expanded head count, ResourceTasksDistance on a resource assigned to exactly one task or on a "
    "cumulative worker, empty / overlapping / repeated interval lists on an assigned resource, an explicit None for a buffer level; "
    "such tuples are executed and counted as not_judged (a tuple that also violates a clause of the statement is still MUST_RAISE)",
    "a name is 'already used' only inside the active problem; the same name in an earlier problem or in another kind "
    "(task vs resource vs buffer ...) is well-formed",
    "'no problem exists' is realised as processscheduler.base.active_problem = None",
]

MUST_RAISE, MUST_ACCEPT, NOT_JUDGED = "MUST_RAISE", "MUST_ACCEPT", "NOT_JUDGED"
OMIT = "<omit>"
NAME, NEAR = "X", "x"

TASKS = ("FixedDurationTask", "VariableDurationTask", "ZeroDurationTask")
BUFFERS = ("NonConcurrentBuffer", "ConcurrentBuffer")
RESCONS = (
    "WorkLoad", "ResourceUnavailable", "ResourcePeriodicallyUnavailable", "ResourceInterrupted",
    "ResourcePeriodicallyInterrupted", "ResourceTasksDistance", "ResourceNonDelay",
)
INDICATORS = (
    "IndicatorFromMathExpression", "IndicatorResourceUtilization", "IndicatorNumberTasksAssigned", "IndicatorResourceCost",
    "IndicatorResourceIdle", "IndicatorMaxBufferLevel", "IndicatorMinBufferLevel", "IndicatorTardiness",
)
OBJECTIVES = ("Objective", "ObjectiveMinimizeMakespan", "ObjectiveMaximizeIndicator", "ObjectiveMinimizeIndicator")
OTHER_CONSTRAINTS = (
    "TaskStartAt", "TaskStartAfter", "TaskEndAt", "TaskEndBefore", "TaskPrecedence", "TasksStartSynced", "TasksEndSynced",
    "TasksDontOverlap", "TasksContiguous", "UnorderedTaskGroup", "OrderedTaskGroup", "ScheduleNTasksInTimeIntervals",
    "TaskLoadBuffer", "TaskUnloadBuffer", "SameWorkers", "DistinctWorkers", "IndicatorTarget", "IndicatorBounds",
    "ConstraintFromExpression", "Not", "Or", "And", "Xor", "Implies", "IfThenElse",
)

FAMILY = {}
KIND = {}
for _c in TASKS:
    FAMILY[_c], KIND[_c] = "task", "task"
for _c in BUFFERS:
    FAMILY[_c], KIND[_c] = "buffer", "buffer"
for _c in RESCONS:
    FAMILY[_c], KIND[_c] = "rescon", "constraint"
for _c in INDICATORS:
    FAMILY[_c], KIND[_c] = "indicator", "indicator"
for _c in OBJECTIVES:
    FAMILY[_c], KIND[_c] = "objective", "objective"
for _c in OTHER_CONSTRAINTS:
    FAMILY[_c], KIND[_c] = "constraint_other", "constraint"
FAMILY.update(
    Worker="worker", CumulativeWorker="cumulative", SelectWorkers="select",
    OptionalTaskForceSchedule="opt_single", OptionalTaskConditionSchedule="opt_single",
    OptionalTasksDependency="opt_dep", ForceScheduleNOptionalTasks="force_n_tasks",
    ForceApplyNOptionalConstraints="force_apply",
)
KIND.update(
    Worker="worker", CumulativeWorker="cumulative", SelectWorkers="select",
    OptionalTaskForceSchedule="constraint", OptionalTaskConditionSchedule="constraint",
    OptionalTasksDependency="constraint", ForceScheduleNOptionalTasks="constraint",
    ForceApplyNOptionalConstraints="constraint",
)
# kinds for which "created before a problem exists" can be realised without any prerequisite element
NO_PROBLEM_KINDS = ("task", "worker", "cumulative", "buffer")

DEFAULT_POP = {"tasks": 3, "workers": 3, "cum": 1, "sel": 1, "buf": 1, "cons": 2, "ind": 1, "obj": 1}


# =============================================================================================
# performing a case against the real API
# =============================================================================================
class SetupRejected(Exception):
    """A well-formed prerequisite element was rejected by the library."""

    def __init__(self, what, exc, cls_name):
        super().__init__(f"{what}: {exc!r}")
        self.what = what
        self.exc = exc
        self.cls_name = cls_name


def _short(kw):
    return ", ".join(f"{k}={str(v)[:40]}" for k, v in kw.items())


def _mk(cls_name, **kw):
    """Create a well-formed prerequisite; library exceptions become SetupRejected."""
    cls = getattr(ps, cls_name)
    try:
        return cls(**kw)
    except Exception as exc:
        raise SetupRejected(f"{cls_name}({_short(kw)})", exc, cls_name)


def _assign(task, resource, **kw):
    try:
        task.add_required_resource(resource, **kw)
    except Exception as exc:
        raise SetupRejected(f"{task.name}.add_required_resource({resource.name}, {_short(kw)})", exc, "add_required_resource")


def _task(variant, name, **kw):
    """variant: fixed | variable | zero [_optional]"""
    optional = variant.endswith("_optional")
    base = variant.split("_")[0]
    if base == "fixed":
        return _mk("FixedDurationTask", name=name, duration=2, optional=optional, **kw)
    if base == "variable":
        return _mk("VariableDurationTask", name=name, optional=optional, **kw)
    if base == "zero":
        return _mk("ZeroDurationTask", name=name, optional=optional, **kw)
    raise ValueError(f"unknown task variant {variant}")


def _populate(pop):
    tasks = [
        _mk("FixedDurationTask", name=f"P_T{i}", duration=i + 1, optional=(i % 2 == 1)) for i in range(pop.get("tasks", 0))
    ]
    workers = [_mk("Worker", name=f"P_W{i}") for i in range(pop.get("workers", 0))]
    for i in range(pop.get("cum", 0)):
        c = _mk("CumulativeWorker", name=f"P_C{i}", size=2 + i)
        if len(tasks) > 2:
            _assign(tasks[2], c)
    sels = []
    if len(workers) >= 2:
        for i in range(pop.get("sel", 0)):
            sels.append(_mk("SelectWorkers", name=f"P_S{i}", list_of_workers=workers[:2], nb_workers_to_select=1))
    if tasks and workers:
        _assign(tasks[0], workers[0])
    if len(tasks) > 1 and sels:
        _assign(tasks[1], sels[0])
    for i in range(pop.get("buf", 0)):
        _mk("NonConcurrentBuffer" if i % 2 == 0 else "ConcurrentBuffer", name=f"P_B{i}", initial_level=i)
    if tasks:
        for i in range(pop.get("cons", 0)):
            _mk("TaskStartAfter", name=f"P_K{i}", task=tasks[i % len(tasks)], value=i, optional=(i % 2 == 1))
        if pop.get("ind", 0):
            ind = _mk("IndicatorFromMathExpression", name="P_I0", expression=tasks[0]._end)
            if pop.get("obj", 0):
                _mk("Objective", name="P_O0", target=ind, kind="minimize")


def _old_problem():
    """An earlier problem holding one element of every kind under the names the case is going to use."""
    _mk("SchedulingProblem", name="c18_old")
    for nm in (NAME, NEAR):
        t = _mk("FixedDurationTask", name=nm, duration=1)
        _mk("Worker", name=nm)
        _mk("CumulativeWorker", name=nm, size=2)
        w = [_mk("Worker", name=f"{nm}_o{i}") for i in range(2)]
        _mk("SelectWorkers", name=nm, list_of_workers=w)
        _mk("NonConcurrentBuffer", name=nm, initial_level=0)
        _mk("TaskStartAt", name=nm, task=t, value=0)
        ind = _mk("IndicatorFromMathExpression", name=nm, expression=t._end)
        _mk("Objective", name=nm, target=ind, kind="minimize")


def _open_context(case):
    ctxname = case.get("context", "fresh")
    ps_base.active_problem = None
    if ctxname == "no_problem":
        return
    if ctxname == "second_problem":
        _old_problem()
    elif ctxname not in ("fresh", "populated"):
        raise ValueError(f"unknown context {ctxname}")
    _mk("SchedulingProblem", name="c18")
    if ctxname == "populated":
        _populate(case.get("pop") or DEFAULT_POP)


def _cost(tag):
    if tag == "const":
        return ps.ConstantFunction(value=5)
    if tag == "linear":
        return ps.LinearFunction(slope=1, intercept=2)
    if tag == "poly":
        return ps.PolynomialFunction(coefficients=[1, 2, 3])
    raise ValueError(tag)


def _given(p, keys):
    return {k: p[k] for k in keys if k in p and p[k] != OMIT}


# ---- builders: (params, prefix) -> kwargs of the constructor (without name); they create the
# ---- prerequisites under names starting with the prefix ------------------------------------------------
def _b_task(el, p, pfx):
    keys = {
        "FixedDurationTask": ("duration", "work_amount", "priority", "optional", "release_date", "due_date"),
        "VariableDurationTask": ("min_duration", "max_duration", "allowed_durations", "work_amount", "priority", "optional", "release_date", "due_date"),
        "ZeroDurationTask": ("work_amount", "priority", "optional", "release_date", "due_date"),
    }[el]
    return _given(p, keys)


def _b_worker(el, p, pfx):
    kw = _given(p, ("productivity",))
    if p.get("cost", "default") != "default":
        kw["cost"] = _cost(p["cost"])
    return kw


def _b_cumulative(el, p, pfx):
    kw = _given(p, ("size", "productivity"))
    if p.get("cost", "default") != "default":
        kw["cost"] = _cost(p["cost"])
    return kw


def _b_select(el, p, pfx):
    n = p["n_list"]
    comp = p.get("composition", "workers")
    if comp == "same_twice":
        w = _mk("Worker", name=f"{pfx}W0")
        lst = [w] * n
    else:
        lst = []
        for i in range(n):
            if i == 0 and comp == "with_cumulative":
                lst.append(_mk("CumulativeWorker", name=f"{pfx}C0", size=2))
            else:
                lst.append(_mk("Worker", name=f"{pfx}W{i}"))
    kw = {"list_of_workers": lst}
    kw.update(_given(p, ("nb_workers_to_select", "kind")))
    return kw


def _b_buffer(el, p, pfx):
    return _given(p, ("initial_level", "final_level", "lower_bound", "upper_bound"))


def _b_opt_single(el, p, pfx):
    variant = p["task_kind"] + ("_optional" if p["task_optional"] else "")
    t = _task(variant, f"{pfx}T")
    kw = {"task": t}
    if el == "OptionalTaskForceSchedule":
        kw["to_be_scheduled"] = p["to_be_scheduled"]
    else:
        if p["condition"] == "other_start_gt":
            other = _mk("FixedDurationTask", name=f"{pfx}T_other", duration=1)
            kw["condition"] = other._start > 2
        elif p["condition"] == "horizon_gt":
            kw["condition"] = ps_base.active_problem._horizon > 3
        else:
            raise ValueError(p["condition"])
    kw.update(_given(p, ("optional",)))
    return kw


def _b_opt_dep(el, p, pfx):
    t1 = _task(p["task_1_kind"] + ("_optional" if p["task_1_optional"] else ""), f"{pfx}T1")
    t2 = _task(p["task_2_kind"] + ("_optional" if p["task_2_optional"] else ""), f"{pfx}T2")
    kw = {"task_1": t1, "task_2": t2}
    kw.update(_given(p, ("optional",)))
    return kw


def _b_force_n_tasks(el, p, pfx):
    kinds = ("fixed", "variable", "zero")
    tasks = [
        _task(kinds[i % 3] + ("_optional" if flag else ""), f"{pfx}T{i}") for i, flag in enumerate(p["optional_flags"])
    ]
    kw = {"list_of_optional_tasks": tasks}
    kw.update(_given(p, ("nb_tasks_to_schedule", "kind", "optional")))
    return kw


def _b_force_apply(el, p, pfx):
    flags = p["optional_flags"]
    tasks = [_mk("FixedDurationTask", name=f"{pfx}T{i}", duration=1) for i in range(len(flags) + 1)]
    cons = []
    for i, flag in enumerate(flags):
        nm = f"{pfx}K{i}"
        if i % 3 == 0:
            cons.append(_mk("TaskStartAt", name=nm, task=tasks[i], value=i, optional=flag))
        elif i % 3 == 1:
            cons.append(_mk("TaskPrecedence", name=nm, task_before=tasks[i], task_after=tasks[i + 1], optional=flag))
        else:
            cons.append(_mk("TasksDontOverlap", name=nm, task_1=tasks[i], task_2=tasks[i + 1], optional=flag))
    kw = {"list_of_optional_constraints": cons}
    kw.update(_given(p, ("nb_constraints_to_apply", "kind", "optional")))
    return kw


def _intervals(p):
    ivs = p.get("intervals", [[1, 3]])
    return [tuple(iv) for iv in ivs]


def _b_rescon(el, p, pfx):
    res_kind = p["res_kind"]
    assign = p["assign"]
    n_tasks = p.get("n_tasks", 0)
    variant = p.get("task_variant", "fixed")
    if res_kind == "worker":
        res = _mk("Worker", name=f"{pfx}R")
    elif res_kind == "cumulative":
        res = _mk("CumulativeWorker", name=f"{pfx}R", size=p.get("res_size", 2))
    else:
        raise ValueError(res_kind)
    other = _mk("Worker", name=f"{pfx}R_other")
    # tasks always exist; whether the resource under test processes them is the point
    tasks = [_task(variant, f"{pfx}T{i}") for i in range(max(n_tasks, 2))]
    if assign in ("none", "unassigned_select"):
        for t in tasks:
            _assign(t, other)
        if assign == "unassigned_select":
            _mk("SelectWorkers", name=f"{pfx}S_idle", list_of_workers=[res, other], nb_workers_to_select=1)
    elif assign in ("direct", "dynamic"):
        for t in tasks[:n_tasks]:
            _assign(t, res, **({"dynamic": True} if assign == "dynamic" else {}))
        for t in tasks[n_tasks:]:
            _assign(t, other)
    elif assign == "select":
        for i, t in enumerate(tasks[:n_tasks]):
            s = _mk("SelectWorkers", name=f"{pfx}S{i}", list_of_workers=[res, other], nb_workers_to_select=1)
            _assign(t, s)
    else:
        raise ValueError(assign)
    kw = {"resource": res}
    ivs = _intervals(p)
    if el == "WorkLoad":
        kw["dict_time_intervals_and_bound"] = {iv: p.get("bound", 2) for iv in ivs}
        kw.update(_given(p, ("kind",)))
    elif el in ("ResourceUnavailable", "ResourceInterrupted"):
        kw["list_of_time_intervals"] = ivs
    elif el in ("ResourcePeriodicallyUnavailable", "ResourcePeriodicallyInterrupted"):
        kw["list_of_time_intervals"] = ivs
        kw["period"] = p.get("period", 5)
        kw.update(_given(p, ("start", "offset", "end")))
    elif el == "ResourceTasksDistance":
        kw["distance"] = p.get("distance", 1)
        kw.update(_given(p, ("mode",)))
    elif el != "ResourceNonDelay":
        raise ValueError(el)
    kw.update(_given(p, ("optional",)))
    return kw


def _two_assigned(pfx, **tkw):
    t1 = _mk("FixedDurationTask", name=f"{pfx}T1", duration=1, **tkw)
    t2 = _mk("FixedDurationTask", name=f"{pfx}T2", duration=2, **tkw)
    w = _mk("Worker", name=f"{pfx}R", cost=ps.ConstantFunction(value=3))
    _assign(t1, w)
    _assign(t2, w)
    return t1, t2, w


def _b_indicator(el, p, pfx):
    t1, t2, w = _two_assigned(pfx, due_date=5, due_date_is_deadline=False)
    if el == "IndicatorFromMathExpression":
        return {"expression": t1._end + t2._end}
    if el in ("IndicatorResourceUtilization", "IndicatorNumberTasksAssigned", "IndicatorResourceIdle"):
        return {"resource": w}
    if el == "IndicatorResourceCost":
        return {"list_of_resources": [w]}
    if el in ("IndicatorMaxBufferLevel", "IndicatorMinBufferLevel"):
        b = _mk("NonConcurrentBuffer", name=f"{pfx}B", initial_level=1)
        _mk("TaskLoadBuffer", name=f"{pfx}KL", task=t1, buffer=b, quantity=1)
        return {"buffer": b}
    if el == "IndicatorTardiness":
        return {"list_of_tasks": [t1, t2]}
    raise ValueError(el)


def _b_objective(el, p, pfx):
    t1 = _mk("FixedDurationTask", name=f"{pfx}T1", duration=1)
    if el == "ObjectiveMinimizeMakespan":
        if p.get("twice"):
            _mk("ObjectiveMinimizeMakespan")
        return {}
    ind = _mk("IndicatorFromMathExpression", name=f"{pfx}I", expression=t1._end)
    if el == "Objective":
        kw = {"target": ind if p.get("target", "indicator") == "indicator" else t1._end, "kind": p.get("kind", "minimize")}
        kw.update(_given(p, ("weight",)))
        return kw
    if el in ("ObjectiveMaximizeIndicator", "ObjectiveMinimizeIndicator"):
        kw = {"target": ind}
        kw.update(_given(p, ("weight",)))
        if p.get("twice"):
            _mk(el, target=ind, weight=1)
        return kw
    raise ValueError(el)


def _b_constraint_other(el, p, pfx):
    t1 = _mk("FixedDurationTask", name=f"{pfx}T1", duration=1)
    t2 = _mk("FixedDurationTask", name=f"{pfx}T2", duration=2, optional=True)
    if el in ("TaskStartAt", "TaskEndAt", "TaskStartAfter", "TaskEndBefore"):
        kw = {"task": t1, "value": 3}
    elif el == "TaskPrecedence":
        kw = {"task_before": t1, "task_after": t2, "offset": 1}
    elif el in ("TasksStartSynced", "TasksEndSynced", "TasksDontOverlap"):
        kw = {"task_1": t1, "task_2": t2}
    elif el in ("TasksContiguous", "UnorderedTaskGroup", "OrderedTaskGroup"):
        kw = {"list_of_tasks": [t1, t2]}
    elif el == "ScheduleNTasksInTimeIntervals":
        kw = {"list_of_tasks": [t1, t2], "nb_tasks_to_schedule": 1, "list_of_time_intervals": [(0, 4)]}
    elif el in ("TaskLoadBuffer", "TaskUnloadBuffer"):
        b = _mk("NonConcurrentBuffer", name=f"{pfx}B", initial_level=5)
        kw = {"task": t1, "buffer": b, "quantity": 1}
    elif el in ("SameWorkers", "DistinctWorkers"):
        ws = [_mk("Worker", name=f"{pfx}W{i}") for i in range(3)]
        s1 = _mk("SelectWorkers", name=f"{pfx}S1", list_of_workers=ws[:2])
        s2 = _mk("SelectWorkers", name=f"{pfx}S2", list_of_workers=ws[1:])
        _assign(t1, s1)
        _assign(t2, s2)
        kw = {"select_workers_1": s1, "select_workers_2": s2}
    elif el in ("IndicatorTarget", "IndicatorBounds"):
        ind = _mk("IndicatorFromMathExpression", name=f"{pfx}I", expression=t1._end)
        if el == "IndicatorTarget":
            kw = {"indicator": ind, "value": 4}
        else:
            kw = {"indicator": ind}
            kw.update(_given(p, ("lower_bound", "upper_bound")))
    elif el == "ConstraintFromExpression":
        kw = {"expression": t1._start >= 1}
    else:
        c1 = _mk("TaskStartAt", name=f"{pfx}K1", task=t1, value=1)
        c2 = _mk("TaskEndAt", name=f"{pfx}K2", task=t2, value=7)
        if el == "Not":
            kw = {"constraint": c1}
        elif el in ("Or", "And"):
            kw = {"list_of_constraints": [c1, c2]}
        elif el == "Xor":
            kw = {"constraint_1": c1, "constraint_2": c2}
        elif el == "Implies":
            kw = {"condition": t1._start > 2, "list_of_constraints": [c1, c2]}
        elif el == "IfThenElse":
            kw = {"condition": t1._start > 2, "then_list_of_constraints": [c1], "else_list_of_constraints": [c2]}
        else:
            raise ValueError(el)
    kw.update(_given(p, ("optional",)))
    return kw


BUILDERS = {
    "task": _b_task, "worker": _b_worker, "cumulative": _b_cumulative, "select": _b_select, "buffer": _b_buffer,
    "opt_single": _b_opt_single, "opt_dep": _b_opt_dep, "force_n_tasks": _b_force_n_tasks, "force_apply": _b_force_apply,
    "rescon": _b_rescon, "indicator": _b_indicator, "objective": _b_objective, "constraint_other": _b_constraint_other,
}


def _valid_params(el):
    """A well-formed parameter tuple of every element class (used for the sibling that carries a name)."""
    fam = FAMILY[el]
    if el == "FixedDurationTask":
        return {"duration": 2}
    if fam in ("task", "worker", "indicator", "objective", "constraint_other"):
        return {"lower_bound": 0} if el == "IndicatorBounds" else ({"weight": 1} if el == "ObjectiveMinimizeIndicator" else {})
    if fam == "cumulative":
        return {"size": 2}
    if fam == "select":
        return {"n_list": 2, "nb_workers_to_select": 1}
    if fam == "buffer":
        return {"initial_level": 0}
    if el == "OptionalTaskForceSchedule":
        return {"task_kind": "fixed", "task_optional": True, "to_be_scheduled": True}
    if el == "OptionalTaskConditionSchedule":
        return {"task_kind": "fixed", "task_optional": True, "condition": "other_start_gt"}
    if fam == "opt_dep":
        return {"task_1_kind": "fixed", "task_1_optional": True, "task_2_kind": "fixed", "task_2_optional": True}
    if fam in ("force_n_tasks", "force_apply"):
        return {"optional_flags": [True, True]}
    if fam == "rescon":
        return {"res_kind": "worker", "assign": "direct", "n_tasks": 2}
    raise ValueError(el)


OTHER_CLASS = {
    "FixedDurationTask": "ZeroDurationTask", "VariableDurationTask": "FixedDurationTask", "ZeroDurationTask": "VariableDurationTask",
    "NonConcurrentBuffer": "ConcurrentBuffer", "ConcurrentBuffer": "NonConcurrentBuffer",
    "IndicatorFromMathExpression": "IndicatorNumberTasksAssigned",
    "TaskStartAt": "TaskEndAt",
}


def _other_class(el):
    if el in OTHER_CLASS:
        return OTHER_CLASS[el]
    if KIND[el] == "constraint":
        return "TaskStartAt"
    if KIND[el] == "indicator":
        return "IndicatorFromMathExpression"
    return None


def _create_valid(el, name, pfx):
    kw = BUILDERS[FAMILY[el]](el, _valid_params(el), pfx)
    return _mk(el, name=name, **kw)


def _apply_name_mode(case):
    """Creates the sibling element(s) the name mode asks for; returns the name kwarg dict of the element under test."""
    el = case["element"]
    mode = case.get("name_mode", "unique")
    kind = KIND[el]
    if mode == "auto":
        return {}
    if mode == "unique":
        return {"name": NAME}
    if mode == "dup":
        _create_valid(el, NAME, "Sib_")
        return {"name": NAME}
    if mode == "dup_other_class":
        _create_valid(_other_class(el), NAME, "Sib_")
        return {"name": NAME}
    if mode == "near_miss":
        _create_valid(el, NAME, "Sib_")
        return {"name": NEAR}
    if mode == "cross_kind":
        # the same name carried by elements of the other kinds
        if kind != "task":
            _mk("FixedDurationTask", name=NAME, duration=1)
        if kind not in ("worker", "cumulative", "select"):
            _mk("Worker", name=NAME)
        if kind != "buffer":
            _mk("ConcurrentBuffer", name=NAME, final_level=1)
        if kind != "constraint":
            t = _mk("FixedDurationTask", name="Sib_T", duration=1)
            _mk("TaskStartAt", name=NAME, task=t, value=1)
        return {"name": NAME}
    if mode == "cross_resource_kind":
        if kind != "worker":
            _mk("Worker", name=NAME)
        if kind != "cumulative":
            _mk("CumulativeWorker", name=NAME, size=2)
        if kind != "select":
            _create_valid("SelectWorkers", NAME, "Sib_")
        return {"name": NAME}
    if mode == "dup_cumulative_member" and el == "Worker":
        _mk("CumulativeWorker", name="Cm", size=2)
        return {"name": "Cm_CumulativeWorker_1"}
    if mode == "member_name_taken" and el == "CumulativeWorker":
        _mk("Worker", name=f"{NAME}_CumulativeWorker_1")
        return {"name": NAME}
    raise ValueError(f"name mode {mode} not available for {el}")


def make(case):
    """Performs the case.  Returns {"outcome": accepted|raised|setup_rejected, "detail": str}."""
    el = case["element"]
    try:
        _open_context(case)
        name_kw = _apply_name_mode(case)
        kw = BUILDERS[FAMILY[el]](el, case["params"], "Q_")
    except SetupRejected as sr:
        return {"outcome": "setup_rejected", "detail": str(sr)[:300], "prerequisite": sr.cls_name}
    kw.update(name_kw)
    cls = getattr(ps, el)
    try:
        obj = cls(**kw)  # <- the call under judgement
    except Exception as exc:
        return {"outcome": "raised", "detail": f"{type(exc).__name__}: {str(exc)[:160]}"}
    if not isinstance(obj, cls):
        return {"outcome": "raised", "detail": f"constructor returned {type(obj).__name__}, not an element"}
    return {"outcome": "accepted", "detail": type(obj).__name__}


# =============================================================================================
# decision table
# =============================================================================================
def _is_int(v):
    return isinstance(v, int) and not isinstance(v, bool)


class Judgement:
    def __init__(self):
        self.viol = []  # (rule id, sits on the boundary value)
        self.edges = []  # rule ids on whose valid edge the tuple sits
        self.open = []  # reasons why the statement does not decide

    def lower_bound(self, rule, v, minimum):
        """clause 'v below minimum is ill-formed' for an integer parameter; OMIT = library default, not judged as edge"""
        if v == OMIT:
            return
        if not _is_int(v):
            self.open.append(f"{rule}:not_an_integer")
        elif v < minimum:
            self.viol.append((rule, v == minimum - 1))
        elif v == minimum:
            self.edges.append(rule)

    def verdict(self):
        if self.viol:
            return MUST_RAISE
        if self.open:
            return NOT_JUDGED
        return MUST_ACCEPT

    def nontrivial(self):
        v = self.verdict()
        if v == MUST_RAISE:
            return len(self.viol) == 1 and self.viol[0][1] and not self.open
        if v == MUST_ACCEPT:
            return bool(self.edges)
        return False

    def rules(self):
        return sorted({r for r, _ in self.viol})


def _g(p, k):
    return p.get(k, OMIT)


def _j_task(el, p, j):
    if el == "FixedDurationTask":
        d = _g(p, "duration")
        if d == OMIT:
            j.open.append("duration_missing")
        else:
            j.lower_bound("fixed_duration_nonpositive", d, 1)
    j.lower_bound("work_amount_negative", _g(p, "work_amount"), 0)
    j.lower_bound("priority_negative", _g(p, "priority"), 0)
    if _g(p, "optional") != OMIT and not isinstance(p["optional"], bool):
        j.open.append("optional_not_bool")
    rel, due = _g(p, "release_date"), _g(p, "due_date")
    for nm, v in (("release_date", rel), ("due_date", due)):
        if v not in (OMIT, None) and not (_is_int(v) and v >= 0):
            j.open.append(f"{nm}_unusual")
    if el == "VariableDurationTask":
        mn = _g(p, "min_duration")
        j.lower_bound("min_duration_negative", mn, 0)
        mx = _g(p, "max_duration")
        lo = mn if _is_int(mn) else 0
        hi = None
        if mx not in (OMIT, None):
            if not _is_int(mx) or mx < 1 or mx < lo:
                j.open.append("max_duration_unusual")
            else:
                hi = mx
        al = _g(p, "allowed_durations")
        if al not in (OMIT, None):
            ok = isinstance(al, list) and al and all(_is_int(a) and a >= 1 for a in al)
            if not ok or not any(a >= lo and (hi is None or a <= hi) for a in al):
                j.open.append("allowed_durations_unusual")


def _j_worker(el, p, j):
    pr = _g(p, "productivity")
    if pr != OMIT and not (_is_int(pr) and pr >= 1):
        j.open.append("productivity_not_positive")


def _j_cumulative(el, p, j):
    s = _g(p, "size")
    if s == OMIT:
        j.open.append("size_missing")
    else:
        j.lower_bound("cumulative_size_below_two", s, 2)
    _j_worker(el, p, j)


def _j_select(el, p, j):
    n = p["n_list"]
    comp = p.get("composition", "workers")
    if comp == "same_twice":
        j.open.append("same_worker_listed_twice")
    if n < 2:
        j.viol.append(("select_fewer_than_two", n == 1))
    elif n == 2:
        j.edges.append("select_fewer_than_two")
    nb = _g(p, "nb_workers_to_select")
    if nb == OMIT:
        nb = 1  # documented default
    elif not _is_int(nb):
        j.open.append("nb_workers_not_an_integer")
        return
    else:
        j.lower_bound("select_nb_nonpositive", nb, 1)
    # "more workers than listed": the list entries count, whatever the size of a cumulative worker among them
    if nb > n:
        j.viol.append(("select_more_than_listed", nb == n + 1))
    elif nb == n and n >= 1 and _g(p, "nb_workers_to_select") != OMIT:
        j.edges.append("select_more_than_listed")
    if _g(p, "kind") not in (OMIT, "exact", "min", "max"):
        j.open.append("kind_unknown")


def _j_buffer(el, p, j):
    if _g(p, "initial_level") in (OMIT, None) and _g(p, "final_level") in (OMIT, None):
        j.open.append("buffer_without_any_level")
    for k in ("initial_level", "final_level", "lower_bound", "upper_bound"):
        v = _g(p, k)
        if v is None:
            j.open.append(f"{k}_explicit_none")  # annotated int; whether an explicit None is a value is not decided
        elif v != OMIT and not (_is_int(v) and v >= 0):
            j.open.append(f"{k}_unusual")
    lo, hi = _g(p, "lower_bound"), _g(p, "upper_bound")
    if _is_int(lo) and _is_int(hi) and lo > hi:
        j.open.append("bounds_crossed")


def _j_opt_single(el, p, j):
    rule = f"optional_rule_on_mandatory_task.{el}"
    if p["task_optional"]:
        j.edges.append(rule)
    else:
        j.viol.append((rule, True))


def _j_opt_dep(el, p, j):
    rule = f"optional_rule_on_mandatory_task.{el}"
    if not p["task_2_optional"]:
        j.viol.append((rule, True))
    elif not p["task_1_optional"]:
        j.open.append("task_1_mandatory_not_documented_either_way")
    else:
        j.edges.append(rule)


def _j_flags(el, p, j, rule, nb_key):
    flags = p["optional_flags"]
    if not flags:
        j.open.append("empty_list")
    if any(not f for f in flags):
        j.viol.append((rule, sum(1 for f in flags if not f) == 1))
    elif flags:
        j.edges.append(rule)
    nb = _g(p, nb_key)
    if nb != OMIT and not (_is_int(nb) and 1 <= nb <= len(flags)):
        j.open.append(f"{nb_key}_outside_1_m")


def _j_force_n_tasks(el, p, j):
    _j_flags(el, p, j, f"optional_rule_on_mandatory_task.{el}", "nb_tasks_to_schedule")


def _j_force_apply(el, p, j):
    _j_flags(el, p, j, "force_apply_over_mandatory_constraint", "nb_constraints_to_apply")


def _j_rescon(el, p, j):
    assign = p["assign"]
    n = p.get("n_tasks", 0) if assign in ("direct", "dynamic", "select") else 0
    rule = f"resource_not_assigned.{el}"
    ivs = p.get("intervals", [[1, 3]])
    if el not in ("ResourceTasksDistance", "ResourceNonDelay"):
        if not ivs:
            j.open.append("empty_interval_list")
        for lo, hi in ivs:
            if not (0 <= lo < hi):
                j.open.append("interval_unusual")
        if any(a[0] < b[1] and b[0] < a[1] for a, b in itertools.combinations(ivs, 2)):
            j.open.append("intervals_overlap_or_repeat")
            if el.startswith("ResourcePeriodically") and hi > p.get("period", 5):
                j.open.append("interval_exceeds_period")
    if el.startswith("ResourcePeriodically") and p.get("period", 5) < 1:
        j.open.append("period_unusual")
    if n == 0:
        if "empty_interval_list" in j.open:
            return  # a constraint over no interval at all: degenerate, the statement does not decide it
        j.viol.append((rule, True))
        return
    if el == "ResourceTasksDistance":
        # a distance between consecutive tasks of one worker: the code calls it "meaningless" below two tasks and
        # only looks at the busy intervals of a plain worker; the statement decides neither case
        if p["res_kind"] == "cumulative":
            j.open.append("tasks_distance_on_cumulative_worker")
        elif n == 1:
            j.open.append("tasks_distance_with_a_single_task")
        elif n == 2:
            j.edges.append(rule)
    elif n == 1:
        j.edges.append(rule)


def _j_indicator(el, p, j):
    pass


def _j_objective(el, p, j):
    if p.get("twice"):
        j.open.append("name_derived_by_the_library_collides")
    if el == "ObjectiveMinimizeIndicator" and _g(p, "weight") == OMIT:
        j.open.append("weight_omitted")


def _j_constraint_other(el, p, j):
    if el == "IndicatorBounds" and _g(p, "lower_bound") in (OMIT, None) and _g(p, "upper_bound") in (OMIT, None):
        j.open.append("indicator_bounds_without_any_bound")


JUDGES = {
    "task": _j_task, "worker": _j_worker, "cumulative": _j_cumulative, "select": _j_select, "buffer": _j_buffer,
    "opt_single": _j_opt_single, "opt_dep": _j_opt_dep, "force_n_tasks": _j_force_n_tasks, "force_apply": _j_force_apply,
    "rescon": _j_rescon, "indicator": _j_indicator, "objective": _j_objective, "constraint_other": _j_constraint_other,
}
# classes that ignore or overwrite the name given by the caller: the duplicate-name clause is not decidable for them
NAME_NOT_HONOURED = ("ObjectiveMinimizeMakespan", "ObjectiveMaximizeIndicator", "ObjectiveMinimizeIndicator")


def judge(case):
    el = case["element"]
    kind = KIND[el]
    j = Judgement()
    JUDGES[FAMILY[el]](el, case["params"], j)
    context = case.get("context", "fresh")
    mode = case.get("name_mode", "unique")
    rule = f"duplicate_name.{kind}"
    if context == "no_problem":
        if kind in NO_PROBLEM_KINDS:
            j.viol.append(("no_problem_exists", True))
        else:
            j.open.append("no_problem_needs_prerequisites")
    if el in NAME_NOT_HONOURED:
        if mode != "auto":
            j.open.append("class_derives_its_own_name")
    elif mode in ("dup", "dup_other_class", "dup_cumulative_member"):
        j.viol.append((rule, True))
    elif mode in ("near_miss", "cross_kind"):
        j.edges.append(rule)
    elif mode in ("cross_resource_kind", "member_name_taken"):
        j.open.append(f"name_{mode}")
    elif mode == "unique" and context == "second_problem":
        j.edges.append(rule)
    elif mode not in ("unique", "auto"):
        raise ValueError(f"unknown name mode {mode}")
    return j


# =============================================================================================
# the grid
# =============================================================================================
def _block(element, space, name_modes, contexts, fixed=None):
    keys = list(space)
    for combo in itertools.product(*(space[k] for k in keys)):
        params = dict(fixed or {})
        params.update(dict(zip(keys, combo)))
        for nm in name_modes:
            for cx in contexts:
                yield {"element": element, "params": params, "name_mode": nm, "context": cx}


def _constructible(case):
    """siblings and prerequisites need a problem"""
    if case["context"] == "no_problem":
        return case["name_mode"] in ("unique", "auto") and KIND[case["element"]] in NO_PROBLEM_KINDS
    return True


ALL_NAMES = ("unique", "auto", "dup", "dup_other_class", "near_miss", "cross_kind")
CTX3 = ("fresh", "populated", "second_problem")
CTX4 = CTX3 + ("no_problem",)
FLAG_LISTS = (
    [True], [False],
    [True, True], [False, True], [True, False], [False, False],
    [True, True, True], [False, True, True], [True, False, True], [True, True, False], [False, False, False],
)


def _grid_cases():
    A = (-1, 0, 1)
    # ---- tasks ------------------------------------------------------------------------------
    yield from _block(
        "FixedDurationTask",
        {"duration": (-1, 0, 1, 2), "work_amount": A, "priority": A, "optional": (False, True)},
        ALL_NAMES, CTX4,
    )
    for d in (True, False, 1.0, 1.5, "2", None, OMIT, -2, 10):
        yield from _block("FixedDurationTask", {"duration": (d,)}, ("unique",), ("fresh",))
    yield from _block(
        "VariableDurationTask",
        {"min_duration": A, "max_duration": (None, 3), "work_amount": A, "priority": A, "optional": (False, True)},
        ("unique", "dup", "near_miss"), ("fresh", "populated", "no_problem"),
    )
    yield from _block("VariableDurationTask", {"min_duration": (0, 1, 2), "allowed_durations": ([1, 2], [2])}, ("unique", "auto"), ("fresh",))
    for extra in ({"max_duration": 0}, {"min_duration": 5, "max_duration": 3}, {"allowed_durations": [0]}, {"allowed_durations": []},
                  {"min_duration": 3, "allowed_durations": [1, 2]}, {"min_duration": True}, {"min_duration": 0.5}):
        yield from _block("VariableDurationTask", {}, ("unique",), ("fresh",), fixed=extra)
    yield from _block("ZeroDurationTask", {"work_amount": A, "priority": A, "optional": (False, True)}, ALL_NAMES, CTX4)
    for extra in ({"work_amount": True}, {"priority": 1.5}, {"work_amount": "1"}, {"optional": 1}, {"release_date": -1}):
        yield from _block("ZeroDurationTask", {}, ("unique",), ("fresh",), fixed=extra)
    # ---- resources --------------------------------------------------------------------------
    yield from _block(
        "Worker", {"productivity": (OMIT, 1, 2), "cost": ("default", "const", "linear", "poly")},
        ALL_NAMES[:3] + ALL_NAMES[4:] + ("dup_cumulative_member", "cross_resource_kind"), CTX4,
    )
    yield from _block("Worker", {"productivity": (0, -1)}, ("unique", "dup"), ("fresh", "no_problem"))
    yield from _block(
        "CumulativeWorker", {"size": (-1, 0, 1, 2, 3), "productivity": (OMIT, 1, 3), "cost": ("default", "const")},
        ("unique", "auto", "dup", "near_miss", "cross_kind", "cross_resource_kind", "member_name_taken"), CTX4,
    )
    for extra in ({"size": OMIT}, {"size": True}, {"size": 2.0}, {"size": 1.5}, {"size": "2"}, {"size": 2, "productivity": 0}):
        yield from _block("CumulativeWorker", {}, ("unique",), ("fresh",), fixed=extra)
    yield from _block(
        "SelectWorkers",
        {"n_list": (0, 1, 2, 3, 4), "nb_workers_to_select": (-1, 0, 1, 2, 3, 4, 5), "kind": ("exact", "min", "max"),
         "composition": ("workers", "with_cumulative")},
        ("unique", "dup"), ("fresh", "populated"),
    )
    yield from _block(
        "SelectWorkers", {"n_list": (1, 2, 3), "nb_workers_to_select": (OMIT, 1, 2, 3)},
        ("auto", "near_miss", "cross_kind", "cross_resource_kind"), CTX3,
    )
    yield from _block("SelectWorkers", {"n_list": (2, 3), "nb_workers_to_select": (1, 2)}, ("unique",), ("fresh",), fixed={"composition": "same_twice"})
    # ---- buffers ----------------------------------------------------------------------------
    for cls in BUFFERS:
        yield from _block(cls, {"initial_level": (OMIT, 0, 5), "final_level": (OMIT, 0, 5)}, ALL_NAMES, CTX4)
        yield from _block(cls, {"initial_level": (OMIT, 0, 5), "final_level": (OMIT, 0, 5)}, ("unique", "dup"), ("fresh", "no_problem"),
                          fixed={"lower_bound": 0, "upper_bound": 10})
        yield from _block(cls, {"initial_level": (None,), "final_level": (None, 3)}, ("unique",), ("fresh",))
    # ---- optional-task rules ----------------------------------------------------------------
    names_c = ("unique", "auto", "dup", "dup_other_class", "near_miss")
    yield from _block(
        "OptionalTaskForceSchedule",
        {"task_kind": ("fixed", "variable", "zero"), "task_optional": (False, True), "to_be_scheduled": (False, True), "optional": (OMIT, True)},
        names_c, ("fresh", "populated"),
    )
    yield from _block(
        "OptionalTaskConditionSchedule",
        {"task_kind": ("fixed", "variable", "zero"), "task_optional": (False, True), "condition": ("other_start_gt", "horizon_gt"), "optional": (OMIT, True)},
        names_c, ("fresh", "populated"),
    )
    yield from _block(
        "OptionalTasksDependency",
        {"task_1_kind": ("fixed", "variable"), "task_1_optional": (False, True), "task_2_kind": ("fixed", "zero"),
         "task_2_optional": (False, True), "optional": (OMIT, True)},
        ("unique", "auto", "dup", "near_miss"), ("fresh", "populated"),
    )
    for flags in FLAG_LISTS:
        k = len(flags)
        for nb in sorted({1, k}):
            yield from _block(
                "ForceScheduleNOptionalTasks", {"kind": ("exact", "min", "max"), "optional": (OMIT, True)},
                ("unique", "dup"), ("fresh", "populated"), fixed={"optional_flags": flags, "nb_tasks_to_schedule": nb},
            )
            yield from _block(
                "ForceApplyNOptionalConstraints", {"kind": ("exact", "min", "max"), "optional": (OMIT, True)},
                ("unique", "dup"), ("fresh", "populated"), fixed={"optional_flags": flags, "nb_constraints_to_apply": nb},
            )
    for el, key in (("ForceScheduleNOptionalTasks", "nb_tasks_to_schedule"), ("ForceApplyNOptionalConstraints", "nb_constraints_to_apply")):
        yield from _block(el, {"optional_flags": ([True, True], [True, False])}, ("auto", "near_miss", "dup_other_class"), ("fresh",))
        for extra in ({"optional_flags": []}, {"optional_flags": [True, True], key: 0}, {"optional_flags": [True, True], key: 3},
                      {"optional_flags": [False, True], key: 3}):
            yield from _block(el, {}, ("unique",), ("fresh",), fixed=extra)
    # ---- resource constraints ---------------------------------------------------------------
    states = [("worker", "none", 0), ("worker", "unassigned_select", 0), ("cumulative", "none", 0)]
    states += [("worker", a, n) for a in ("direct", "select") for n in (1, 2)] + [("worker", "dynamic", 1)]
    states += [("cumulative", "direct", n) for n in (1, 2)]
    for cls in RESCONS:
        for res_kind, assign, n in states:
            variants = ("fixed", "variable", "fixed_optional") if n else ("fixed",)
            yield from _block(
                cls, {"task_variant": variants, "optional": (OMIT, True)}, ("unique", "dup", "near_miss"), ("fresh", "populated"),
                fixed={"res_kind": res_kind, "assign": assign, "n_tasks": n},
            )
        yield from _block(cls, {"assign": ("none", "direct")}, ("auto", "dup_other_class", "cross_kind"), ("fresh",),
                          fixed={"res_kind": "worker", "n_tasks": 2})
        if cls not in ("ResourceTasksDistance", "ResourceNonDelay"):
            yield from _block(cls, {"assign": ("none", "direct"), "intervals": ([], [[1, 2], [3, 4]])}, ("unique",), ("fresh",),
                              fixed={"res_kind": "worker", "n_tasks": 1})
    # ---- indicators, objectives, every other constraint class: the name clause -------------------------------
    for cls in INDICATORS:
        yield from _block(cls, {}, ALL_NAMES, CTX3)
    yield from _block("Objective", {"kind": ("minimize", "maximize"), "target": ("indicator", "z3var"), "weight": (OMIT, 2)},
                      ("unique", "auto", "dup", "near_miss", "cross_kind"), CTX3)
    yield from _block("ObjectiveMinimizeMakespan", {"twice": (False, True)}, ("auto",), CTX3)
    yield from _block("ObjectiveMaximizeIndicator", {"twice": (False, True), "weight": (OMIT, 1)}, ("auto",), CTX3)
    yield from _block("ObjectiveMinimizeIndicator", {"twice": (False, True), "weight": (OMIT, 1)}, ("auto",), CTX3)
    for cls in OTHER_CONSTRAINTS:
        fixed = {"lower_bound": 0} if cls == "IndicatorBounds" else {}
        yield from _block(cls, {"optional": (OMIT, True)}, ALL_NAMES, ("fresh", "populated"), fixed=fixed)
    for extra in ({}, {"lower_bound": None, "upper_bound": None}, {"upper_bound": 4}, {"lower_bound": 1, "upper_bound": 4}):
        yield from _block("IndicatorBounds", {}, ("unique",), ("fresh",), fixed=extra)


_GRID = None


def grid():
    """The whole grid, deduplicated, in a deterministic order."""
    global _GRID
    if _GRID is None:
        seen, out = set(), []
        for case in _grid_cases():
            if not _constructible(case):
                continue
            key = canon(case)
            if key not in seen:
                seen.add(key)
                out.append(case)
        _GRID = out
    return _GRID


# =============================================================================================
# Hypothesis: the same elements with larger integers and varied contexts
# =============================================================================================
def drawn_cases():
    from hypothesis import strategies as st

    BIG = 10 ** 12

    def ints(*near):
        return st.one_of(st.sampled_from(list(near)), st.integers(-BIG, BIG), st.integers(-3, 6))

    opt = st.sampled_from([OMIT, True, False])
    flag = st.booleans()
    c_opt = st.sampled_from([OMIT, True, False])

    def fixed(**kw):
        return st.fixed_dictionaries(kw)

    rel_due = st.sampled_from([(OMIT, OMIT), (0, OMIT), (2, OMIT), (OMIT, 10 ** 6), (1, 10 ** 6), (None, None)])

    def with_dates(d):
        return st.tuples(d, rel_due).map(lambda t: dict(t[0], release_date=t[1][0], due_date=t[1][1]))

    task_common = dict(work_amount=st.one_of(st.just(OMIT), ints(-1, 0, 1)), priority=st.one_of(st.just(OMIT), ints(-1, 0, 1)), optional=opt)
    flags = st.lists(flag, min_size=0, max_size=5)
    # 1-3 disjoint intervals: cut points drawn as a strictly increasing list
    ivs_st = st.lists(st.integers(0, 24), min_size=2, max_size=6, unique=True).map(
        lambda pts: [[a, b] for a, b in zip(sorted(pts)[0::2], sorted(pts)[1::2])]
    )

    def rescon(cls):
        state = st.sampled_from(
            [("worker", "none", 0), ("worker", "unassigned_select", 0), ("cumulative", "none", 0), ("worker", "direct", 1),
             ("worker", "direct", 2), ("worker", "direct", 4), ("worker", "select", 1), ("worker", "select", 3), ("worker", "dynamic", 1),
             ("worker", "dynamic", 2), ("cumulative", "direct", 1), ("cumulative", "direct", 3)]
        )
        base = st.tuples(state, st.sampled_from(["fixed", "variable", "zero", "fixed_optional", "variable_optional"]), c_opt,
                         ivs_st, st.integers(2, 4))
        def build(t):
            (rk, a, n), variant, o, ivs, rsize = t
            p = {"res_kind": rk, "assign": a, "n_tasks": n, "task_variant": variant, "optional": o, "intervals": ivs, "res_size": rsize}
            if cls.startswith("ResourcePeriodically"):
                p["period"] = max(hi for _, hi in ivs) + (n % 3)
                p["offset"] = n % 2
            if cls == "WorkLoad":
                p["kind"] = ("max", "min", "exact")[len(ivs) % 3]
                p["bound"] = rsize
            if cls == "ResourceTasksDistance":
                p["distance"] = rsize
                p["mode"] = ("exact", "min", "max")[len(ivs) % 3]
            return p
        return base.map(build)

    per_element = {
        "FixedDurationTask": with_dates(fixed(duration=ints(-1, 0, 1, 2), **task_common)),
        "VariableDurationTask": with_dates(fixed(min_duration=st.one_of(st.just(OMIT), ints(-1, 0, 1)),
                                                 max_duration=st.sampled_from([OMIT, None, 3, BIG]),
                                                 allowed_durations=st.sampled_from([OMIT, None, [1, 2], [3]]), **task_common)),
        "ZeroDurationTask": with_dates(fixed(**task_common)),
        "Worker": fixed(productivity=st.one_of(st.just(OMIT), st.integers(-2, 50)), cost=st.sampled_from(["default", "const", "linear", "poly"])),
        "CumulativeWorker": fixed(size=st.one_of(st.integers(-3, 12), st.integers(-BIG, 1)), productivity=st.one_of(st.just(OMIT), st.integers(0, 30)),
                                  cost=st.sampled_from(["default", "const"])),
        "SelectWorkers": fixed(n_list=st.integers(0, 7), nb_workers_to_select=st.one_of(st.just(OMIT), ints(-1, 0, 1, 2, 7, 8)),
                               kind=st.sampled_from([OMIT, "exact", "min", "max"]), composition=st.sampled_from(["workers", "workers", "with_cumulative"])),
        "OptionalTaskForceSchedule": fixed(task_kind=st.sampled_from(["fixed", "variable", "zero"]), task_optional=flag, to_be_scheduled=flag, optional=c_opt),
        "OptionalTaskConditionSchedule": fixed(task_kind=st.sampled_from(["fixed", "variable", "zero"]), task_optional=flag,
                                               condition=st.sampled_from(["other_start_gt", "horizon_gt"]), optional=c_opt),
        "OptionalTasksDependency": fixed(task_1_kind=st.sampled_from(["fixed", "variable", "zero"]), task_1_optional=flag,
                                         task_2_kind=st.sampled_from(["fixed", "variable", "zero"]), task_2_optional=flag, optional=c_opt),
        "ForceScheduleNOptionalTasks": fixed(optional_flags=flags, nb_tasks_to_schedule=st.one_of(st.just(OMIT), st.integers(0, 6)),
                                             kind=st.sampled_from([OMIT, "exact", "min", "max"]), optional=c_opt),
        "ForceApplyNOptionalConstraints": fixed(optional_flags=flags, nb_constraints_to_apply=st.one_of(st.just(OMIT), st.integers(0, 6)),
                                                kind=st.sampled_from([OMIT, "exact", "min", "max"]), optional=c_opt),
        "Objective": fixed(kind=st.sampled_from(["minimize", "maximize"]), target=st.sampled_from(["indicator", "z3var"]),
                           weight=st.one_of(st.just(OMIT), st.integers(1, 9))),
    }
    for cls in BUFFERS:
        lvl = st.one_of(st.just(OMIT), st.integers(0, 5), st.integers(0, BIG))
        per_element[cls] = fixed(initial_level=lvl, final_level=lvl, lower_bound=st.sampled_from([OMIT, 0]), upper_bound=st.sampled_from([OMIT, BIG]))
    for cls in RESCONS:
        per_element[cls] = rescon(cls)
    for cls in INDICATORS:
        per_element[cls] = st.just({})
    for cls in OTHER_CONSTRAINTS:
        per_element[cls] = fixed(optional=c_opt).map(lambda d, c=cls: dict(d, lower_bound=0) if c == "IndicatorBounds" else d)

    # the classes carrying a numeric clause are drawn more often
    weighted = list(per_element) + ["FixedDurationTask", "VariableDurationTask", "ZeroDurationTask", "CumulativeWorker", "SelectWorkers"] * 6
    pop = fixed(tasks=st.integers(0, 5), workers=st.integers(0, 4), cum=st.integers(0, 2), sel=st.integers(0, 2), buf=st.integers(0, 3),
                cons=st.integers(0, 4), ind=st.integers(0, 1), obj=st.integers(0, 1))

    def for_element(el):
        names = ["unique", "auto", "dup", "near_miss", "cross_kind"]
        if _other_class(el):
            names.append("dup_other_class")
        if KIND[el] in ("worker", "cumulative", "select"):
            names.append("cross_resource_kind")
        contexts = ["fresh", "populated", "populated", "second_problem"]
        if KIND[el] in NO_PROBLEM_KINDS:
            contexts.append("no_problem")
        return st.tuples(per_element[el], st.sampled_from(names), st.sampled_from(contexts), pop).map(lambda t: _assemble(el, *t))

    return st.sampled_from(weighted).flatmap(for_element)


def _assemble(el, params, name_mode, context, pop):
    if context == "no_problem":
        name_mode = "unique" if name_mode not in ("unique", "auto") else name_mode
    case = {"element": el, "params": {k: v for k, v in params.items() if v != OMIT}, "name_mode": name_mode, "context": context}
    if context == "populated":
        case["pop"] = pop
    return case


# =============================================================================================
# judging one case
# =============================================================================================
def evaluate(case):
    """-> (judgement, outcome dict, violated rule id or None, observed text)"""
    j = judge(case)
    out = make(case)
    verdict = j.verdict()
    el = case["element"]
    if out["outcome"] == "setup_rejected":
        return j, out, f"rejected_wellformed.prerequisite.{out['prerequisite']}", f"a well-formed prerequisite of {el} was rejected: {out['detail']}"
    if verdict == MUST_RAISE and out["outcome"] == "accepted":
        # aspects of the tuple the statement leaves open are part of the rule id, so that a known finding about a
        # degenerate shape cannot tolerate the plain violation of the same clause
        shape = "+".join(sorted(set(j.open)))
        rule = "accepted_illformed." + "+".join(j.rules()) + (f"[{shape}]" if shape else "")
        return j, out, rule, f"{el} was accepted although ill-formed ({', '.join(j.rules())})"
    if verdict == MUST_ACCEPT and out["outcome"] == "raised":
        return j, out, f"rejected_wellformed.{el}", f"well-formed {el} was rejected: {out['detail']}"
    return j, out, None, out["detail"]


REGISTRIES = ("tasks", "workers", "select_workers", "cumulative_workers", "buffers", "constraints", "indicators", "objectives")


def _registry_snapshot():
    pb = ps_base.active_problem
    out = {}
    for r in REGISTRIES:
        reg = getattr(pb, r, None) or {}
        if isinstance(reg, dict):
            out[r] = {n: id(o) for n, o in reg.items()}
        else:  # the buffers are kept in a list
            out[r] = {f"#{k}:{getattr(o, 'name', '?')}": id(o) for k, o in enumerate(reg)}
    return out


def rejected_case(case):
    """'Rejected at creation': a creation that raises leaves the model as it was, and a well-formed element of the same
    class may then be created under the same name.  -> (performed, violated rule or None, observed)"""
    el = case["element"]
    if case.get("context") == "no_problem" or case.get("name_mode", "unique") != "unique":
        return False, None, "not applicable"
    if judge(case).verdict() != MUST_RAISE:
        return False, None, "not an ill-formed tuple"
    try:
        _open_context(case)
        kw = BUILDERS[FAMILY[el]](el, case["params"], "Q_")
    except SetupRejected:
        return False, None, "prerequisite rejected"
    kw["name"] = NAME
    before = _registry_snapshot()
    try:
        getattr(ps, el)(**kw)
    except Exception:
        pass
    else:
        return False, None, "accepted (judged by the grid check)"
    after = _registry_snapshot()
    left = sorted(f"{r}:{n}" for r in REGISTRIES for n in after[r] if before[r].get(n) != after[r][n])
    if left:
        return True, f"rejected_element_left_in_model.{KIND[el]}", f"the creation of {el} raised, yet the problem now holds {left}"
    try:
        _create_valid(el, NAME, "R_")
    except SetupRejected as sr:
        return True, f"retry_after_rejection_refused.{KIND[el]}", f"prerequisite of the well-formed {el}: {sr}"
    except Exception as exc:
        return True, f"retry_after_rejection_refused.{KIND[el]}", f"a well-formed {el} named like the rejected one was refused: {type(exc).__name__}: {str(exc)[:120]}"
    return True, None, "model unchanged by the rejected creation; retry accepted"


def check_rejected(ctx, case):
    try:
        done, bad, observed = rejected_case(case)
    finally:
        ps_base.active_problem = None
    if not done:
        return
    ctx.evaluation()
    ctx.event("rejected_creations_examined")
    ctx.event(f"rejected:{KIND[case['element']]}")
    ctx.nontrivial_case({"rejected": case})
    if bad is not None:
        ctx.violation({"check": "C18.rejected", "rule": bad, "case": case, "verdict": MUST_RAISE, "observed": observed,
                       "signature": {"rule": bad, "element": case["element"]}}, bucket=f"C18|{bad}")


def check_case(ctx, case, check="C18.grid"):
    j, out, bad, observed = evaluate(case)
    verdict = j.verdict()
    el = case["element"]
    ctx.event(f"class:{el}")
    ctx.event(f"verdict:{verdict}")
    ctx.event(f"context:{case.get('context', 'fresh')}")
    if verdict == NOT_JUDGED and bad is None:
        ctx.event(f"not_judged:{el}:{j.open[0]}:{out['outcome']}")
        return
    ctx.evaluation()
    for r in j.rules():
        ctx.event(f"clause_violated:{r}")
    if verdict == MUST_ACCEPT:
        for r in sorted(set(j.edges)):
            ctx.event(f"clause_valid_edge:{r}")
    if j.nontrivial():
        ctx.nontrivial_case(case)
        ctx.event(f"nontrivial:{verdict}")
        if ctx.case_no % 7 == 0 or not ctx.samples:
            ctx.sample({"case": case, "verdict": verdict, "outcome": out["outcome"]}, cap=4)
    if bad is not None:
        ctx.violation(
            {"check": check, "rule": bad, "case": case, "verdict": verdict, "observed": observed,
             "signature": {"rule": bad, "element": el}},
            bucket=f"C18|{bad}",  # one bucket per clause, whether met in the grid or drawn
        )


def run_shard(ctx):
    try:
        for i, case in enumerate(grid()):
            if i % ctx.nshards != ctx.shard:
                continue
            ctx.case_no += 1
            try:
                check_case(ctx, case, "C18.grid")
            except Violation:
                continue  # recorded; all clauses are examined
            try:
                check_rejected(ctx, case)
            except Violation:
                continue
        ctx.event("grid_tuples_this_run", sum(1 for i in range(len(grid())) if i % ctx.nshards == ctx.shard))
        n = {"quick": 300, "thorough": 3200}[ctx.tier]
        run_hypothesis(ctx, drawn_cases(), lambda c, case: check_case(c, case, "C18.drawn"), max_examples=n)
        # "every well-formed element is accepted", beyond the grid: whole problems generated well-formed by
        # construction (every element class with its parameter grid, vf/spec.py) must build without an error
        from .. import spec as S
        m = {"quick": 120, "thorough": 1500}[ctx.tier]
        for prof in WELLFORMED_PROFILES():
            run_hypothesis(ctx, S.specs(prof), wellformed_spec_case, max_examples=m)
    finally:
        ps_base.active_problem = None


def WELLFORMED_PROFILES():
    from .. import spec as S
    return [
        S.profile(min_tasks=1, max_tasks=4, p_resources=75, task_constraints=(1, 4), optional_rules=(0, 2), resource_constraints=(0, 3), buffers=(0, 2),
                  fol=(0, 2), optional_constraints=25, indicators=(0, 3), indicator_constraints=30, objectives=(0, 2), p_optional=40, p_cumulative=45, p_group_precedence=25, p_nested_force_apply=20),
        S.profile(min_tasks=1, max_tasks=2, p_resources=90, task_constraints=(1, 3), optional_rules=(0, 1), resource_constraints=(1, 3), buffers=(0, 1),
                  indicators=(1, 3), p_optional=30, p_cumulative=50, p_select=30),
    ]


def wellformed_spec_case(ctx, spec):
    from .. import build as B, engine
    ctx.evaluation()
    try:
        B.build(spec, 0, make_solver=False)
    except B.BuildRejected as exc:
        el = exc.element if isinstance(exc.element, dict) else {}
        rule = f"rejected_wellformed.generated_spec.{exc.stage}.{el.get('type', '')}"
        ctx.violation({"check": "C18.spec", "rule": rule, "spec": spec, "case": {"element": el, "stage": exc.stage},
                       "observed": f"{type(exc.exc).__name__}: {exc.exc}", "signature": {"rule": rule}})
        return
    finally:
        ps_base.active_problem = None
    n_el = len(spec["constraints"]) + len(spec["indicators"]) + len(spec["objectives"]) + len(spec["assign"])
    if n_el >= 3:
        ctx.nontrivial_case({"wellformed_spec": spec})
        ctx.event("wellformed_specs_nontrivial")


def replay(record):
    if record.get("check") == "C18.rejected":
        try:
            done, bad, observed = rejected_case(record["case"])
        finally:
            ps_base.active_problem = None
        return (bad is not None), observed
    if record.get("check") == "C18.spec":
        from .. import build as B
        try:
            B.build(record["spec"], 0, make_solver=False)
        except B.BuildRejected as exc:
            return True, f"well-formed generated problem rejected at {exc.stage}: {type(exc.exc).__name__}: {exc.exc}"
        finally:
            ps_base.active_problem = None
        return False, "problem builds"
    case = record["case"]
    try:
        j, out, bad, observed = evaluate(case)
    finally:
        ps_base.active_problem = None
    if bad is not None:
        return True, f"{bad}: {observed}"
    return False, f"verdict {j.verdict()}, outcome {out['outcome']} ({out['detail']})"
