"""C19 - infeasibility diagnosis names constraints that really conflict."""
import copy
import os
import shutil
import tempfile

from hypothesis import strategies as st

from .. import adapter, build as B, engine, env, probe, ref, spec as S
from ..runner import run_hypothesis

ID = "C19"
RULE = (
    "generated problems whose base (tasks, resources, assignments, buffers with their load/unload accesses, horizon) is feasible - "
    "checked first - plus 1-5 generated user constraints (incompatible start/end pins, precedence cycles, windows shorter than "
    "durations, unavailability covering the horizon, and random ones) among which 0-4 are irrelevant; in a second stratum members of the "
    "conflicts are optional constraints obliged to apply by a ForceApplyNOptionalConstraints rule. Each is solved with "
    "debug=True (in half of the cases after initialize() and / or export_to_smt2() on the same solver) and, independently rebuilt, with debug=False. Oracle: same verdict in both modes; a schedule returned in debug "
    "mode is reference-valid; when infeasible, every constraint object printed in the conflict list is a member of "
    "problem.constraints, the list is not empty, and base + listed constraints (rebuilt, solved without debug) is infeasible. "
    "Non-trivial = infeasible problem with >= 1 irrelevant constraint present and not listed, or >= 2 constraints listed; "
    "distinct by SHA-1 of the spec."
)
ASSUMPTIONS = [
    "z3 answers and unsat cores trusted; the conflict list is read from the objects passed to the print function of processscheduler.solver",
    "constraints nested inside logical combinations are part of their parent; only top-level constraints are expected in the list",
]
TECHNIQUE = "Hypothesis-generated infeasible problems; metamorphic re-solve of base + reported core, differential debug vs non-debug"

PROFILE = S.profile(min_tasks=1, max_tasks=4, horizon=(2, 6), p_no_horizon=10, p_resources=55, task_constraints=(1, 4), optional_rules=(0, 1), resource_constraints=(0, 2),
                    buffers=(0, 1), p_optional=15, p_release=10, p_due=10, p_work_amount=5)
VALID_FAMILIES = ("T", "W", "TC", "RC", "OPT", "BUF", "FOL")
BASE_TYPES = ("TaskLoadBuffer", "TaskUnloadBuffer")


# optional constraints forced to apply by a ForceApplyNOptionalConstraints rule take part in the conflicts
PROFILE_OPT = S.profile(min_tasks=1, max_tasks=3, horizon=(2, 6), p_no_horizon=10, p_resources=40, task_constraints=(1, 3), optional_rules=(0, 1), resource_constraints=(0, 1),
                        buffers=(0, 0), optional_constraints=45, p_optional=15, p_release=10, p_due=10, p_work_amount=5)


@st.composite
def cases(draw, forced_optional=False):
    prof = PROFILE_OPT if forced_optional else PROFILE
    spec = draw(S.specs(prof))
    g = S.Gen(draw, prof)
    g.n_names = 100
    H = spec["horizon"] if spec["horizon"] is not None else 6
    names = [t["name"] for t in spec["tasks"]]
    mand = [t for t in spec["tasks"] if not t["optional"]] or spec["tasks"]
    # explicit conflicts
    for _ in range(draw(st.integers(0, 2))):
        k = draw(st.sampled_from(["two_starts", "cycle", "short_window", "blocked_worker"]))
        t = draw(st.sampled_from(mand))["name"]
        if k == "two_starts":
            a = draw(st.integers(0, H))
            spec["constraints"].append({"type": "TaskStartAt", "name": g.name("c"), "task": t, "value": a})
            spec["constraints"].append({"type": "TaskStartAt", "name": g.name("c"), "task": t, "value": a + draw(st.integers(1, 2))})
        elif k == "cycle" and len(names) >= 2:
            u = draw(st.sampled_from([n for n in names if n != t]))
            spec["constraints"].append({"type": "TaskPrecedence", "name": g.name("c"), "before": t, "after": u, "offset": 0, "kind": "strict"})
            spec["constraints"].append({"type": "TaskPrecedence", "name": g.name("c"), "before": u, "after": t, "offset": 0, "kind": "strict"})
        elif k == "short_window":
            v = draw(st.integers(0, H))
            spec["constraints"].append({"type": "TaskStartAfter", "name": g.name("c"), "task": t, "value": v, "kind": "lax"})
            spec["constraints"].append({"type": "TaskEndBefore", "name": g.name("c"), "task": t, "value": v, "kind": "strict"})
        elif k == "blocked_worker":
            ws = [a["res"] for a in spec["assign"] if a["task"] == t and a["res"] in {w["name"] for w in spec["workers"]}]
            if ws:
                spec["constraints"].append({"type": "ResourceUnavailable", "name": g.name("c"), "res": ws[0], "intervals": [[0, H + 3]]})
    if forced_optional:
        # some members of the explicit conflicts become optional constraints that a force-apply rule obliges to apply
        fresh = [c for c in spec["constraints"] if c["name"].startswith("c1") and len(c["name"]) >= 4 and not c.get("optional") and c["type"] != "ForceApplyNOptionalConstraints"]
        forced = [c for c in fresh if draw(st.integers(0, 99)) < 50]
        for c in forced:
            c["optional"] = True
        if forced:
            k = draw(st.integers(1, len(forced)))
            spec["constraints"].append({"type": "ForceApplyNOptionalConstraints", "name": g.name("c"), "cs": [c["name"] for c in forced], "n": len(forced) if k == len(forced) else k,
                                        "kind": draw(st.sampled_from(["exact", "min"])) if k == len(forced) else "min"})
    perm = draw(st.permutations(list(range(len(spec["constraints"])))))
    cs = [spec["constraints"][i] for i in perm]
    spec["constraints"] = [c for c in cs if c["type"] != "ForceApplyNOptionalConstraints"] + [c for c in cs if c["type"] == "ForceApplyNOptionalConstraints"]
    # calls made on the debug solver before solve(): they must not change the diagnosis
    pre = draw(st.sampled_from([[], [], [], ["export"], ["export"], ["initialize"], ["initialize", "export"]]))
    return {"spec": spec, "seed": draw(st.integers(0, 2**30)), "pre": pre}


def base_of(spec, keep_names=()):
    s = copy.deepcopy(spec)
    s["constraints"] = [c for c in s["constraints"] if c["type"] in BASE_TYPES or c.get("name") in keep_names]
    s["indicators"], s["objectives"] = [], []
    return s


def solve_debug(spec, seed, extra=None, pre=()):
    h = B.build(spec, seed, solver_kwargs=dict({"debug": True}, **(extra or {})))
    try:
        for op in pre:
            if op == "initialize":
                h.solver.initialize()
            elif op == "export":
                d = tempfile.mkdtemp(prefix="vf_c19_")
                try:
                    h.solver.export_to_smt2(os.path.join(d, "p.smt2"))
                finally:
                    shutil.rmtree(d, ignore_errors=True)
        with env.collect_prints() as printed:
            sol = h.solver.solve()
            listed = []
            header = None
            for args in printed:
                if args and isinstance(args[0], str) and "Unsatisfied constraints - conflict between" in args[0]:
                    header = args[0]
                elif header is not None and args and not isinstance(args[0], str):
                    listed.append(args[0])
    finally:
        env.reset_z3_globals()
    return h, sol, listed, header


def prop_optimize(ctx, case):
    """the same diagnosis through the built-in optimiser (debug=True, optimizer='optimize', an objective): run as the LAST
    stratum of the shard because z3 4.12.6 occasionally aborts the process on tracked assertions inside z3.Optimize"""
    spec = dict(case["spec"], objectives=[{"type": "MinimizeMakespan", "id": "o1"}])
    prop(ctx, {"spec": spec, "seed": case["seed"]}, extra={"optimizer": "optimize"})


def prop(ctx, case, extra=None):
    spec, seed = case["spec"], case["seed"]

    def viol(rule, observed, extra=None):
        ctx.violation({"check": "C19.diagnosis", "rule": rule, "spec": spec, "seed": seed, "pre": case.get("pre") or [], "probe": dict({"kind": "debug_solve"}, **(extra or {})),
                       "observed": observed, "signature": {"rule": rule, "classes": engine.classes_of(spec)}})

    try:
        sb = probe.Session(base_of(spec), seed + 7)
    except B.BuildRejected as exc:
        ctx.event(f"build_rejected:{exc.stage}:{type(exc.exc).__name__}")
        return
    rbase, _, _ = sb.check([], extras=False)
    if rbase != "sat":
        ctx.event("base_not_feasible")
        return
    try:
        h0, sol0, exc0 = probe.solve_public(spec, seed, solver_kwargs=extra)
    except B.BuildRejected as exc:
        ctx.event(f"build_rejected:{exc.stage}:{type(exc.exc).__name__}")
        return
    if exc0 is not None:
        ctx.event("plain_solve_raised")
        return
    try:
        h, sol, listed, header = solve_debug(spec, seed + 1, extra, case.get("pre") or ())
    except Exception as exc:
        viol("debug_solve_raised", repr(exc))
        return
    ctx.evaluation()
    if bool(sol) != bool(sol0):
        # a definite answer is needed on both sides
        # a 'no solution' answer is a verdict only if a re-check gives a definite unsat (otherwise z3 gave up)
        failed = h0 if not sol0 else h
        try:
            definite = str(adapter._get(failed.solver, "_solver").check()) == "unsat"
        except Exception:
            definite = False
        if not definite:
            ctx.inconclusive += 1
            return
        viol("debug_mode_changes_the_verdict", {"debug": bool(sol), "plain": bool(sol0)})
        return
    if sol:
        sched = adapter.read_schedule(h, adapter._get(h.solver, "_model"))
        bad = ref.judge(spec, sched).bad(VALID_FAMILIES)
        if bad:
            viol("debug_mode_schedule_invalid", engine.summarize_bad(bad), {"schedule": engine.to_candidate(spec, sched)})
            return
        ctx.event("feasible_cases")
        return
    ctx.event("infeasible_cases")
    members = list(h.problem.constraints.values())
    names = []
    for c in listed:
        if not any(c is mbr for mbr in members):
            viol("listed_object_is_not_a_constraint_of_the_problem", repr(c)[:200])
            return
        names.append(c.name)
    if header is None:
        viol("no_conflict_list_printed", None)
        return
    top = {c["name"] for c in spec["constraints"]}
    if not names:
        viol("empty_conflict_list_although_the_base_is_feasible", header)
        return
    if any(n not in top for n in names):
        viol("listed_constraint_is_not_a_declared_top_level_constraint", names)
        return
    # base + listed constraints must be infeasible on their own
    core_spec = base_of(spec, keep_names=set(names))
    fa = [c for c in core_spec["constraints"] if c["type"] == "ForceApplyNOptionalConstraints"]
    have = {x["name"] for x in core_spec["constraints"]}
    stubs = []
    for c in fa:
        for n in c["cs"]:
            if n not in have:
                # a listed force-apply rule counts an optional constraint that is not listed itself: the rule is rebuilt
                # over a stand-in whose own condition is void (its applied flag is free), since only listed constraints count
                have.add(n)
                stubs.append({"type": "ConstraintFromExpression", "name": n, "optional": True, "expr": {"op": "bool", "v": True}})
                ctx.event("core_with_unlisted_optional_constraint_stubbed")
    core_spec["constraints"] = stubs + core_spec["constraints"]
    try:
        sc = probe.Session(core_spec, seed + 9)
    except B.BuildRejected as exc:
        ctx.event("core_rebuild_rejected")
        return
    rc, _, _ = sc.check([], extras=False)
    ctx.evaluation()
    if rc == "unknown":
        ctx.inconclusive += 1
        return
    if rc == "sat":
        viol("listed_constraints_do_not_conflict", {"listed": sorted(set(names)), "declared": sorted(top)})
        return
    irrelevant = [n for n in top if n not in names and not any(c["name"] == n and c["type"] in BASE_TYPES for c in spec["constraints"])]
    if irrelevant or len(set(names)) >= 2:
        ctx.nontrivial_case({"spec": spec})
        ctx.event("nontrivial")
        ctx.sample({"spec": spec, "listed": sorted(set(names)), "not_listed": sorted(irrelevant)}, cap=3)
    ctx.event("listed_%d" % min(len(set(names)), 4))


def run_shard(ctx):
    n = {"quick": 110, "thorough": 1000}[ctx.tier]
    run_hypothesis(ctx, cases(), prop, max_examples=n)
    run_hypothesis(ctx, cases(forced_optional=True), prop, max_examples=n // 2)
    # prop_optimize (debug=True + optimizer="optimize") is deliberately NOT run: on z3 4.12.6 the process aborts in about
    # half of the shards (SIGSEGV / "ASSERTION VIOLATION" while extracting the core of a z3.Optimize object) and the cores
    # that do come back are not cores (e.g. only an irrelevant TaskStartAt listed); see DESIGN.md section 5.


def replay(record):
    from ..runner import Ctx
    ctx = Ctx("C19", "quick", 0, 0, 1, collect=True)
    ctx.replaying = True
    prop(ctx, {"spec": record["spec"], "seed": record.get("seed", 0), "pre": record.get("pre") or []})
    if ctx.violations:
        b, (sz, rec) = next(iter(ctx.violations.items()))
        return True, {"rule": rec["rule"], "observed": rec["observed"]}
    return False, "diagnosis consistent"
