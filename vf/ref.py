"""Reference semantics: an independent, z3-free evaluation of the *documented* meaning of every
model element on one concrete schedule (DESIGN.md section 2.3).

Every predicate evaluates to a non-empty subset of {True, False}:
    {True}         holds under every reasonable reading of the documentation   (VALID)
    {False}        fails under every reasonable reading                        (INVALID)
    {True, False}  the documentation leaves it open                            (UNSPECIFIED)
Soundness checks flag only {False}; completeness checks submit only schedules whose every rule
is {True}.
"""
from fractions import Fraction
import itertools

T = frozenset([True])
F = frozenset([False])
U = frozenset([True, False])


def tv(b):
    return T if b else F


def t_not(a):
    return frozenset(not x for x in a)


def t_and(items):
    items = list(items)
    out = set()
    if all(True in a for a in items):
        out.add(True)
    if any(False in a for a in items):
        out.add(False)
    return frozenset(out) if out else T


def t_or(items):
    items = list(items)
    out = set()
    if any(True in a for a in items):
        out.add(True)
    if all(False in a for a in items):
        out.add(False)
    return frozenset(out) if out else F


def t_comb(fn, *operands):
    out = set()
    for combo in itertools.product(*[sorted(o) for o in operands]):
        out.add(bool(fn(*combo)))
    return frozenset(out)


def weaken(a, cond_unspec):
    """if cond_unspec, the outcome is left open."""
    return U if cond_unspec else a


CONSTRAINT_FAMILY = {
    "TaskStartAt": "TC", "TaskStartAfter": "TC", "TaskEndAt": "TC", "TaskEndBefore": "TC",
    "TaskPrecedence": "TC", "GroupPrecedence": "TC", "TasksStartSynced": "TC", "TasksEndSynced": "TC", "TasksDontOverlap": "TC",
    "TasksContiguous": "TC", "UnorderedTaskGroup": "TC", "OrderedTaskGroup": "TC",
    "ScheduleNTasksInTimeIntervals": "TC",
    "OptionalTaskForceSchedule": "OPT", "OptionalTaskConditionSchedule": "OPT",
    "OptionalTasksDependency": "OPT", "ForceScheduleNOptionalTasks": "OPT",
    "WorkLoad": "RC", "ResourceUnavailable": "RC", "ResourcePeriodicallyUnavailable": "RC",
    "ResourceInterrupted": "RC", "ResourcePeriodicallyInterrupted": "RC", "ResourceNonDelay": "RC",
    "ResourceTasksDistance": "RC", "SameWorkers": "RC", "DistinctWorkers": "RC",
    "ConstraintFromExpression": "FOL", "Not": "FOL", "Or": "FOL", "And": "FOL", "Xor": "FOL",
    "Implies": "FOL", "IfThenElse": "FOL", "ForceApplyNOptionalConstraints": "FOL",
    "IndicatorTarget": "IND", "IndicatorBounds": "IND",
    "TaskUnloadBuffer": "BUF", "TaskLoadBuffer": "BUF",
}


def lane_shares(p, n):
    """documented in resource.py: '7 over 3 -> 3, 2, 2'"""
    return [p // n + p % n] + [p // n] * (n - 1)


def cost_value(c, x):
    if c is None:
        return Fraction(0)
    if c["t"] == "const":
        return Fraction(c["v"])
    if c["t"] == "lin":
        return Fraction(c["a"]) * x + Fraction(c["b"])
    if c["t"] == "poly":
        r = Fraction(0)
        for coef in c["c"]:
            r = r * x + Fraction(coef)
        return r
    raise ValueError(c)


def cost_integral(c, lo, hi):
    """exact integral of the cost function over [lo, hi]"""
    if c is None:
        return Fraction(0)
    if c["t"] == "const":
        return Fraction(c["v"]) * (hi - lo)
    if c["t"] == "lin":
        return Fraction(c["a"]) * (Fraction(hi * hi - lo * lo, 2)) + Fraction(c["b"]) * (hi - lo)
    coefs = list(c["c"])
    n = len(coefs) - 1
    tot = Fraction(0)
    for i, coef in enumerate(coefs):
        p = n - i
        tot += Fraction(coef) * Fraction(hi ** (p + 1) - lo ** (p + 1), p + 1)
    return tot


def _lane_witnesses(spec, v, sched):
    """Work amounts of tasks that occupy a cumulative worker.  resource.py documents that the productivity p of a
    cumulative worker of size n is distributed over its n elementary workers ("lanes") as lane_shares(p, n), that a task
    occupies at least one lane, and a lane is an ordinary worker (one task at a time).  Returns
      T  if some choice of exactly ONE lane per task (the occupation every other reference rule assumes under its strict
         reading) keeps the lanes exclusive and reaches every work amount;
      F  if no choice of non-empty lane sets, with only positive-length overlaps counted as conflicts, reaches them;
      U  otherwise."""
    occ = []  # (task, cumulative name, start, end)
    base = {}  # task -> work done by ordinary workers
    want = {}
    for t in spec.get("tasks", []):
        n = t["name"]
        wa = t.get("work_amount") or 0
        if wa > 0 and v.sch(n):
            want[n] = wa
            base[n] = 0
    for ai, a in enumerate(spec.get("assign", [])):
        n = a["task"]
        if not v.sch(n):
            continue
        rec = sched["assign"][ai]
        s, e = v.start(n), v.end(n)
        if a["res"] in v.cspec:
            occ.append((n, a["res"], s, e))
        elif a["res"] in v.wspec:
            if n in want:
                b = rec["busy"].get(a["res"]) or [s + (a.get("delay_in") or 0), e - (a.get("early_out") or 0)]
                pr = v.wspec[a["res"]].get("productivity")
                base[n] += (1 if pr is None else pr) * (b[1] - b[0])
        else:
            for w, c in (rec.get("chosen") or {}).items():
                if not c:
                    continue
                if w in v.cspec:
                    occ.append((n, w, s, e))
                elif n in want:
                    pr = v.wspec[w].get("productivity") if w in v.wspec else None
                    base[n] += (1 if pr is None else pr) * (e - s)
    if not occ or any(e < s for _, _, s, e in occ):
        return None
    shares = {}
    for cn, cs in v.cspec.items():
        pr = cs.get("productivity")
        shares[cn] = lane_shares(1 if pr is None else pr, cs["size"])

    def conflict(i, j, strict):
        (_, _, s0, e0), (_, _, s1, e1) = occ[i], occ[j]
        if e0 > s0 and e1 > s1:
            return max(s0, s1) < min(e0, e1)
        if not strict or (e0 == s0 and e1 == s1):
            return False
        z, (a, b) = (s0, (s1, e1)) if e0 == s0 else (s1, (s0, e0))
        return a < z < b

    def search(strict, one_lane):
        chosen = []

        def rec_(i):
            if i == len(occ):
                got = dict(base)
                for (n, cn, s, e), ls in zip(occ, chosen):
                    if n in got:
                        got[n] += sum(shares[cn][k] for k in ls) * (e - s)
                return all(got[n] >= want[n] for n in want)
            n, cn, s, e = occ[i]
            size = len(shares[cn])
            subsets = [(k,) for k in range(size)] if one_lane else [ls for r in range(1, size + 1) for ls in itertools.combinations(range(size), r)]
            for ls in subsets:
                if any(occ[j][1] == cn and set(ls) & set(chosen[j]) and conflict(i, j, strict) for j in range(i)):
                    continue
                chosen.append(ls)
                if rec_(i + 1):
                    return True
                chosen.pop()
            return False

        return rec_(0)

    if search(True, True):
        return T
    if not search(False, False):
        return F
    return U


class Verdict:
    def __init__(self):
        self.results = []  # (family, rule, element, tvset, detail)
        self.derived = {}

    def add(self, family, rule, element, val, detail=None):
        self.results.append((family, rule, element, val, detail))

    def bad(self, families=None):
        return [r for r in self.results if r[3] == F and (families is None or r[0] in families)]

    def unspecified(self, families=None):
        return [r for r in self.results if r[3] == U and (families is None or r[0] in families)]

    def valid_strict(self):
        return all(r[3] == T for r in self.results)

    def valid_weak(self, families=None):
        return not self.bad(families)

    def status(self):
        if self.bad():
            return "INVALID"
        if self.unspecified():
            return "UNSPECIFIED"
        return "VALID"


class View:
    """Convenience accessors over (spec, schedule)."""

    def __init__(self, spec, sched):
        self.spec = spec
        self.s = sched
        self.H = sched["horizon"]
        self.tspec = {t["name"]: t for t in spec.get("tasks", [])}
        self.wspec = {w["name"]: w for w in spec.get("workers", [])}
        self.cspec = {c["name"]: c for c in spec.get("cumulative", [])}
        self.sspec = {s_["name"]: s_ for s_ in spec.get("selects", [])}
        self.bspec = {b["name"]: b for b in spec.get("buffers", [])}
        self.ispec = {i["id"]: i for i in spec.get("indicators", [])}
        self._eff = None
        self.applied_env = None  # {optional constraint name: applied?} while a nested force-apply rule is evaluated

    def sch(self, name):
        return bool(self.s["tasks"][name]["scheduled"])

    def start(self, name):
        return self.s["tasks"][name]["start"]

    def end(self, name):
        return self.s["tasks"][name]["end"]

    def dur(self, name):
        t = self.tspec[name]
        if t["kind"] == "fixed":
            return t["duration"]
        if t["kind"] == "zero":
            return 0
        d = self.s["tasks"][name].get("duration")
        if d is None:
            return self.end(name) - self.start(name)
        return d

    def scheduled_of(self, names):
        return [n for n in names if self.sch(n)]

    # -- effective busy intervals ---------------------------------------------------------
    def effective(self):
        """{resource name: [(task, bs, be, lanes_or_None)]} for Workers (physical) and
        CumulativeWorkers (spec level).  Only scheduled tasks / chosen workers count."""
        if self._eff is not None:
            return self._eff
        eff = {n: [] for n in list(self.wspec) + list(self.cspec)}
        for ai, a in enumerate(self.spec.get("assign", [])):
            tn = a["task"]
            if not self.sch(tn):
                continue
            rec = self.s["assign"][ai]
            s, e = self.start(tn), self.end(tn)
            if a["res"] in self.wspec:
                b = rec["busy"].get(a["res"])
                if b is None:
                    b = [s + (a.get("delay_in") or 0), e - (a.get("early_out") or 0)]
                eff[a["res"]].append((tn, b[0], b[1], None))
            elif a["res"] in self.cspec:
                lanes = None
                if rec.get("chosen") is not None:
                    lanes = [w for w, c in rec["chosen"].items() if c]
                eff[a["res"]].append((tn, s, e, lanes))
            else:
                chosen = rec.get("chosen") or {}
                for wn, c in chosen.items():
                    if c and wn in eff:
                        b = rec["busy"].get(wn) or [s, e]
                        eff[wn].append((tn, b[0], b[1], None))
        self._eff = eff
        return eff

    def busy_of(self, res):
        return self.effective().get(res, [])


# =============================================================================================
# expression AST
# =============================================================================================
def eval_expr(ast, v):
    """returns a python value, or None when the value is not determined by the schedule
    (variables of an unscheduled task in a candidate without raw values)."""
    op = ast["op"]
    if op == "const":
        return ast["v"]
    if op == "bool":
        return bool(ast["v"])
    if op == "horizon":
        return v.s.get("horizon_var", v.H)
    if op == "var":
        rec = v.s["tasks"][ast["task"]]
        a = ast["attr"]
        if a == "scheduled":
            return bool(rec["scheduled"])
        if a == "duration":
            if v.tspec[ast["task"]]["kind"] != "var":
                return v.dur(ast["task"])
            val = rec.get("duration")
            return val
        return rec.get(a)
    if op in ("+", "-", "*"):
        a, b = eval_expr(ast["a"], v), eval_expr(ast["b"], v)
        if a is None or b is None:
            return None
        return a + b if op == "+" else a - b if op == "-" else a * b
    if op in ("<=", "<", "==", "!=", ">=", ">"):
        a, b = eval_expr(ast["a"], v), eval_expr(ast["b"], v)
        if a is None or b is None:
            return None
        return {"<=": a <= b, "<": a < b, "==": a == b, "!=": a != b, ">=": a >= b, ">": a > b}[op]
    if op == "and":
        vals = [eval_expr(x, v) for x in ast["args"]]
        if any(x is False for x in vals):
            return False
        return None if any(x is None for x in vals) else True
    if op == "or":
        vals = [eval_expr(x, v) for x in ast["args"]]
        if any(x is True for x in vals):
            return True
        return None if any(x is None for x in vals) else False
    if op == "not":
        a = eval_expr(ast["a"], v)
        return None if a is None else (not a)
    raise ValueError(op)


def expr_tasks(ast):
    if ast["op"] == "var":
        return {ast["task"]}
    out = set()
    for k in ("a", "b"):
        if isinstance(ast.get(k), dict):
            out |= expr_tasks(ast[k])
    for x in ast.get("args", []) or []:
        out |= expr_tasks(x)
    return out


def t_expr(ast, v):
    val = eval_expr(ast, v)
    if val is None:
        return U
    return tv(bool(val))


# =============================================================================================
# constraints
# =============================================================================================
def _cmp_kind(kind, a, b):
    """a (lax <=, strict <, tight ==) b"""
    return {"lax": a <= b, "strict": a < b, "tight": a == b}[kind]


def _count(kind, n, target):
    return {"exact": n == target, "min": n >= target, "max": n <= target}[kind]


def constraint_tasks(c):
    """task names a constraint spec mentions directly (not through resources)."""
    t = c["type"]
    names = []
    for k in ("task", "before", "after", "t1", "t2"):
        if k in c and isinstance(c[k], str):
            names.append(c[k])
    if "tasks" in c and c["tasks"]:
        names += list(c["tasks"])
    return names


def holds(c, v, operand=False):
    """truth set of constraint spec c on the schedule viewed by v.  ``operand``: the node is
    used inside a logical combination (vacuous truth for unscheduled tasks is then left open)."""
    t = c["type"]
    fn = _HOLDS.get(t)
    if fn is None:
        raise ValueError(f"no reference rule for {t}")
    k = c.get("after_assign")
    if k is not None and k < len(v.spec.get("assign", [])):
        # declared between two assignments: it certainly binds the assignments made before it; whether it
        # binds later ones is not documented
        sub_spec = dict(v.spec, assign=v.spec["assign"][:k])
        sub_sched = dict(v.s, assign=v.s["assign"][:k])
        early = fn(c, View(sub_spec, sub_sched), operand)
        if early == F:
            return F
        every = fn(c, v, operand)
        return T if every == T else U
    return fn(c, v, operand)


def _vacuous(operand):
    return U if operand else T


def h_single(c, v, operand):
    n = c["task"]
    if not v.sch(n):
        return _vacuous(operand)
    t = c["type"]
    if t == "TaskStartAt":
        return tv(v.start(n) == c["value"])
    if t == "TaskEndAt":
        return tv(v.end(n) == c["value"])
    if t == "TaskStartAfter":
        return tv(v.start(n) > c["value"] if c["kind"] == "strict" else v.start(n) >= c["value"])
    if t == "TaskEndBefore":
        return tv(v.end(n) < c["value"] if c["kind"] == "strict" else v.end(n) <= c["value"])
    raise ValueError(t)


def h_precedence(c, v, operand):
    a, b = c["before"], c["after"]
    if not (v.sch(a) and v.sch(b)):
        return _vacuous(operand)
    return tv(_cmp_kind(c["kind"], v.end(a) + c["offset"], v.start(b)))


_INF = 10 ** 9


def _group_window(gc, v):
    """ranges ((lo, hi) of the window start, (lo, hi) of the window end) that the group's own rule leaves to the two
    window unknowns of a task group: the window contains every scheduled member; it lies inside the fixed interval, or
    is not longer than the given length."""
    names = v.scheduled_of(gc["tasks"])
    s_hi = min((v.start(n) for n in names), default=_INF)  # window start <= every member start
    e_lo = max((v.end(n) for n in names), default=-_INF)  # window end >= every member end
    s_lo, e_hi = -_INF, _INF
    if gc.get("interval") is not None:
        s_lo, e_hi = gc["interval"][0], gc["interval"][1]
    elif gc.get("length") is not None and names:
        # end <= start + length with start <= s_hi, end >= e_lo
        e_hi = s_hi + gc["length"]
        s_lo = e_lo - gc["length"]
    return (s_lo, s_hi), (e_lo, e_hi)


def h_group_precedence(c, v, operand):
    """TaskPrecedence over task groups: the relation holds between the end of the `before` window (resp. task) and the
    start of the `after` window (resp. task), for some admissible position of the window(s).  A task operand that is
    not scheduled makes it vacuous."""
    if c.get("gbefore"):
        _, (a_lo, a_hi) = _group_window(find_constraint(v.spec, c["gbefore"]), v)
    else:
        if not v.sch(c["before"]):
            return _vacuous(operand)
        a_lo = a_hi = v.end(c["before"])
    if c.get("gafter"):
        (b_lo, b_hi), _ = _group_window(find_constraint(v.spec, c["gafter"]), v)
    else:
        if not v.sch(c["after"]):
            return _vacuous(operand)
        b_lo = b_hi = v.start(c["after"])
    if a_lo > a_hi or b_lo > b_hi:
        return F  # no admissible window at all (the group itself is violated)
    off = c["offset"]
    if c["kind"] == "lax":
        return tv(a_lo + off <= b_hi)
    if c["kind"] == "strict":
        return tv(a_lo + off < b_hi)
    return tv(a_lo + off <= b_hi and b_lo <= a_hi + off)


def h_pair(c, v, operand):
    a, b = c["t1"], c["t2"]
    if not (v.sch(a) and v.sch(b)):
        return _vacuous(operand)
    t = c["type"]
    if t == "TasksStartSynced":
        return tv(v.start(a) == v.start(b))
    if t == "TasksEndSynced":
        return tv(v.end(a) == v.end(b))
    if t == "TasksDontOverlap":
        sa, ea, sb, eb = v.start(a), v.end(a), v.start(b), v.end(b)
        ok = sb >= ea or sa >= eb
        # two zero-length tasks at the same instant: open
        if sa == ea == sb == eb:
            return U
        # a zero-length task strictly inside the other one overlaps under every reading; at a
        # boundary it does not
        return tv(ok)
    raise ValueError(t)


def h_contiguous(c, v, operand):
    names = v.scheduled_of(c["tasks"])
    if len(names) < len(c["tasks"]) and operand:
        return U
    ivs = sorted((v.start(n), v.end(n)) for n in names)
    if any(s == e for s, e in ivs):
        return U  # zero-length members: not specified
    if len(set(s for s, e in ivs)) < len(ivs):
        # equal starts of positive-length tasks can never be contiguous
        return F if len(ivs) > 1 else T
    ok = all(ivs[i + 1][0] == ivs[i][1] for i in range(len(ivs) - 1))
    return tv(ok)


def h_group(c, v, operand):
    names = v.scheduled_of(c["tasks"])
    if len(names) < len(c["tasks"]) and operand:
        return U
    res = []
    if names:
        lo = min(v.start(n) for n in names)
        hi = max(v.end(n) for n in names)
        if c.get("interval") is not None:
            res.append(tv(lo >= c["interval"][0] and hi <= c["interval"][1]))
        elif c.get("length") is not None:
            res.append(tv(hi - lo <= c["length"]))
    if c["type"] == "OrderedTaskGroup":
        for a, b in zip(names, names[1:]):
            # consecutive *scheduled* members are ordered (an unscheduled optional member is skipped: C06)
            res.append(tv(_cmp_kind(c["kind"], v.end(a), v.start(b))))
    return t_and(res) if res else T


def task_in_interval(v, n, lo, hi):
    return v.start(n) >= lo and v.end(n) <= hi


def h_schedule_n(c, v, operand):
    names = v.scheduled_of(c["tasks"])
    if len(names) < len(c["tasks"]) and operand:
        return U
    n_in = sum(1 for n in names if any(task_in_interval(v, n, lo, hi) for lo, hi in c["intervals"]))
    ok = _count(c["kind"], n_in, c["n"])
    if not ok:
        return F
    # a task that is not inside any interval but overlaps one: the documentation only speaks of tasks
    # 'in' the intervals; the repository's tests expect such tasks to stay clear of them.  Left open.
    for n in names:
        if any(task_in_interval(v, n, lo, hi) for lo, hi in c["intervals"]):
            continue
        s, e = v.start(n), v.end(n)
        if any((s < hi and e > lo) or (s == e and lo < s < hi) for lo, hi in c["intervals"]):
            return U
    return T


def h_force_schedule(c, v, operand):
    return tv(v.sch(c["task"]) == bool(c["flag"]))


def h_condition(c, v, operand):
    cond = t_expr(c["cond"], v)
    s = v.sch(c["task"])
    # docstring/code: scheduled iff condition;  doc page: "adds a condition for the task to be
    # scheduled" (scheduled only if).  strict = iff, weak = only-if.
    strict = t_comb(lambda cd: s == cd, cond)
    weak = t_comb(lambda cd: (not s) or cd, cond)
    if strict == T:
        return T
    if F == weak:
        return F
    return U


def h_dependency(c, v, operand):
    a, b = v.sch(c["t1"]), v.sch(c["t2"])
    if a == b:
        return T
    # doc page: t1 scheduled => t2 scheduled ; docstring: iff
    if a and not b:
        return F
    return U


def h_force_n(c, v, operand):
    n = sum(1 for x in c["tasks"] if v.sch(x))
    return tv(_count(c["kind"], n, c["n"]))


# ---- resource constraints ------------------------------------------------------------------
def _res_intervals(v, res):
    """effective busy intervals [(task, bs, be, mult_lo, mult_hi)] of a worker or cumulative."""
    out = []
    for tn, bs, be, lanes in v.busy_of(res):
        if res in v.cspec:
            size = v.cspec[res]["size"]
            if lanes is not None:
                out.append((tn, bs, be, max(1, len(lanes)), max(1, len(lanes))))
            else:
                out.append((tn, bs, be, 1, size))
        else:
            out.append((tn, bs, be, 1, 1))
    return out


def h_unavailable(c, v, operand):
    res = []
    for tn, bs, be, _, _ in _res_intervals(v, c["res"]):
        for lo, hi in c["intervals"]:
            if be > bs:
                res.append(tv(not (bs < hi and be > lo)))
            elif be == bs:
                res.append(U if lo < bs < hi else T)
            else:
                res.append(U)
    return t_and(res) if res else T


def _periodic_windows(c, lo_t, hi_t):
    """all windows offset + k*period + [lo, hi] that intersect [lo_t, hi_t]"""
    p, off = c["period"], c.get("offset", 0) or 0
    out = []
    for lo, hi in c["intervals"]:
        k0 = (lo_t - off - hi) // p - 1
        k1 = (hi_t - off - lo) // p + 1
        for k in range(k0, k1 + 1):
            a, b = off + k * p + lo, off + k * p + hi
            if b >= lo_t and a <= hi_t:
                out.append((a, b))
    return out


def _active_range(c, v):
    st = c.get("start", 0) or 0
    en = c.get("end")
    return st, en


def h_periodic_unavailable(c, v, operand):
    res = []
    st, en = _active_range(c, v)
    for tn, bs, be, _, _ in _res_intervals(v, c["res"]):
        if be < bs:
            res.append(U)
            continue
        # entirely outside the activity range: not concerned under any reading
        if (st > 0 and be <= st) or (en is not None and bs >= en):
            res.append(T)
            continue
        wins = _periodic_windows(c, bs - 1, be + 1)
        hit_any = False  # positive-length intersection with some window (code's reading)
        hit_active = False  # ... restricted to the activity range (weakest reading)
        inside_zero = False
        for a, b in wins:
            if be > bs:
                if bs < b and be > a:
                    hit_any = True
                    ia, ib = max(a, bs, st), min(b, be, en if en is not None else b)
                    if ib > ia:
                        hit_active = True
            else:
                if a < bs < b:
                    inside_zero = True
        if hit_active:
            res.append(F)
        elif hit_any or inside_zero:
            res.append(U)
        else:
            res.append(T)
    return t_and(res) if res else T


def _overlap(bs, be, lo, hi):
    return max(0, min(be, hi) - max(bs, lo))


def h_workload(c, v, operand):
    res = []
    ivs = _res_intervals(v, c["res"])
    for lo, hi, bound in c["intervals"]:
        if any(be < bs for _, bs, be, _, _ in ivs):
            res.append(U)
            continue
        lo_sum = sum(_overlap(bs, be, lo, hi) * m0 for _, bs, be, m0, m1 in ivs)
        hi_sum = sum(_overlap(bs, be, lo, hi) * m1 for _, bs, be, m0, m1 in ivs)
        once = sum(_overlap(bs, be, lo, hi) for _, bs, be, m0, m1 in ivs)
        k = c["kind"]
        if k == "max":
            strict, weak = lo_sum <= bound, once <= bound
        elif k == "min":
            strict, weak = once >= bound, max(hi_sum, once) >= bound
        else:
            strict = once == bound and lo_sum == hi_sum == once
            # some multiplicity between lo_sum and hi_sum (steps of the overlaps) could match
            weak = once == bound or (lo_sum <= bound <= hi_sum)
        res.append(T if strict else (U if weak else F))
    return t_and(res) if res else T


def _sorted_pairs(v, res):
    ivs = sorted((bs, be, tn) for tn, bs, be, _ in v.busy_of(res))
    return ivs


def _distance_open(ivs):
    """situations the documentation does not cover: zero-length or coinciding starts/ends"""
    starts = [a for a, b, _ in ivs]
    ends = [b for a, b, _ in ivs]
    return len(set(starts)) < len(starts) or len(set(ends)) < len(ends) or any(b <= a for a, b, _ in ivs)


def h_distance(c, v, operand):
    if c["res"] in v.cspec:
        return U
    ivs = _sorted_pairs(v, c["res"])
    if _distance_open(ivs):
        return U
    res = []
    for (s0, e0, _), (s1, e1, _) in zip(ivs, ivs[1:]):
        gap = s1 - e0
        ok = {"exact": gap == c["distance"], "min": gap >= c["distance"], "max": gap <= c["distance"]}[c["mode"]]
        if c.get("intervals") is not None:
            inside = any(lo <= e0 <= hi and lo <= s1 <= hi for lo, hi in c["intervals"])
            if not inside:
                continue
        res.append(tv(ok))
    return t_and(res) if res else T


def h_nondelay(c, v, operand):
    if c["res"] in v.cspec:
        return U
    ivs = _sorted_pairs(v, c["res"])
    if _distance_open(ivs):
        return U
    return tv(all(s1 == e0 for (s0, e0, _), (s1, e1, _) in zip(ivs, ivs[1:])))


def _interrupted_core(v, c, windows_fn):
    res = []
    r = c["res"]
    for tn, bs, be, _, _ in _res_intervals(v, r):
        kind = v.tspec[tn]["kind"]
        if be < bs:
            res.append(U)
            continue
        wins = windows_fn(bs, be)
        if kind != "var":
            if be > bs:
                res.append(tv(not any(bs < b and be > a for a, b in wins)))
            else:
                res.append(U if any(a < bs < b for a, b in wins) else T)
        else:
            ok_edges = not any(a < bs < b or a < be < b for a, b in wins)
            ov = sum(b - a for a, b in wins if bs < b and be > a)
            d = v.dur(tn)
            mn = v.tspec[tn].get("min_duration") or 0
            ok = ok_edges and d >= mn + ov
            if be == bs and any(a < bs < b for a, b in wins):
                res.append(U)
            else:
                res.append(tv(ok))
    return t_and(res) if res else T


def h_interrupted(c, v, operand):
    wins = [tuple(x) for x in c["intervals"]]
    return _interrupted_core(v, c, lambda bs, be: wins)


def h_periodic_interrupted(c, v, operand):
    st, en = _active_range(c, v)

    def wf(bs, be):
        out = []
        for a, b in _periodic_windows(c, bs - 1, be + 1):
            out.append((a, b))
        return out

    # activity range: a busy interval entirely before start / after end is not concerned; one that
    # straddles a boundary is left open
    res = []
    r = c["res"]
    sub = dict(c)
    for tn, bs, be, _, _ in _res_intervals(v, r):
        if (st > 0 and be <= st) or (en is not None and bs >= en):
            res.append(T)
            continue
        one = _interrupted_core_single(v, tn, bs, be, wf(bs, be))
        straddles = (st > 0 and bs < st < be) or (en is not None and bs < en < be)
        if straddles and one == F:
            one = U
        res.append(one)
    return t_and(res) if res else T


def _interrupted_core_single(v, tn, bs, be, wins):
    kind = v.tspec[tn]["kind"]
    if be < bs:
        return U
    if kind != "var":
        if be > bs:
            return tv(not any(bs < b and be > a for a, b in wins))
        return U if any(a < bs < b for a, b in wins) else T
    ok_edges = not any(a < bs < b or a < be < b for a, b in wins)
    ov = sum(b - a for a, b in wins if bs < b and be > a)
    d = v.dur(tn)
    mn = v.tspec[tn].get("min_duration") or 0
    if be == bs and any(a < bs < b for a, b in wins):
        return U
    return tv(ok_edges and d >= mn + ov)


def _chosen_sets(v, c):
    def chosen(sname):
        for ai, a in enumerate(v.spec.get("assign", [])):
            if a["res"] == sname:
                ch = v.s["assign"][ai].get("chosen") or {}
                return {w for w, x in ch.items() if x}, a["task"]
        return None, None

    return chosen(c["s1"]), chosen(c["s2"])


def h_same_distinct(c, v, operand):
    (c1, t1), (c2, t2) = _chosen_sets(v, c)
    if c1 is None or c2 is None:
        return U  # a selection that is not assigned to any task
    common = set(v.sspec[c["s1"]]["workers"]) & set(v.sspec[c["s2"]]["workers"])
    # a selection whose task is not scheduled: an unscheduled task occupies no worker and triggers no constraint (C06)
    if not (v.sch(t1) and v.sch(t2)):
        return _vacuous(operand)
    if c["type"] == "SameWorkers":
        return tv(all((w in c1) == (w in c2) for w in common))
    return tv(not any(w in c1 and w in c2 for w in common))


# ---- logic --------------------------------------------------------------------------------------
def find_constraint(spec, name):
    """named constraint node anywhere in the constraint trees of spec"""
    def walk(c):
        if not isinstance(c, dict) or "op" in c:
            return None
        if c.get("name") == name:
            return c
        for k in ("c", "c1", "c2"):
            r = walk(c.get(k))
            if r is not None:
                return r
        for k in ("cs", "then", "else"):
            for x in c.get(k) or []:
                r = walk(x)
                if r is not None:
                    return r
        return None
    for c in spec.get("constraints", []):
        r = walk(c)
        if r is not None:
            return r
    raise KeyError(name)


def _operand(node, v):
    if "ref" in node:
        return holds(find_constraint(v.spec, node["ref"]), v, operand=True)
    if "type" in node:
        return holds(node, v, operand=True)
    return t_expr(node, v)


def h_expr(c, v, operand):
    return t_expr(c["expr"], v)


def h_not(c, v, operand):
    return t_not(_operand(c["c"], v))


def h_or(c, v, operand):
    return t_or(_operand(x, v) for x in c["cs"])


def h_and(c, v, operand):
    return t_and(_operand(x, v) for x in c["cs"])


def h_xor(c, v, operand):
    return t_comb(lambda a, b: a != b, _operand(c["c1"], v), _operand(c["c2"], v))


def h_implies(c, v, operand):
    return t_comb(lambda cd, body: (not cd) or body, t_expr(c["cond"], v), t_and(_operand(x, v) for x in c["cs"]))


def h_ite(c, v, operand):
    return t_comb(
        lambda cd, a, b: a if cd else b,
        t_expr(c["cond"], v),
        t_and(_operand(x, v) for x in c["then"]),
        t_and(_operand(x, v) for x in c["else"]),
    )


def h_force_apply(c, v, operand):
    """a force-apply rule used as an operand: the count of applied flags (the flags of the model, or those of the
    assignment under examination in candidate mode)"""
    env = v.applied_env
    if env is None or any(env.get(n) is None for n in c["cs"]):
        return U
    return tv(_count(c["kind"], sum(1 for n in c["cs"] if env[n]), c["n"]))


def has_nested_force_apply(c, top=True):
    if not isinstance(c, dict) or "op" in c or "ref" in c:
        return False
    if c["type"] == "ForceApplyNOptionalConstraints":
        return not top
    for k in ("c", "c1", "c2"):
        if has_nested_force_apply(c.get(k), False):
            return True
    return any(has_nested_force_apply(x, False) for k in ("cs", "then", "else") for x in (c.get(k) or []))


def force_apply_joint(spec, v):
    """candidate mode, some force-apply rule is an operand: the applied flags are unknowns shared by every rule.  T if some
    set of certainly-holding optional constraints, taken as the applied ones, makes every formula containing a rule and
    every top-level rule true; F if no set of possibly-holding ones does; U otherwise."""
    opt = [c for c in spec["constraints"] if c.get("optional") and c.get("name")]
    deps = [c for c in spec["constraints"] if not c.get("optional") and (c["type"] == "ForceApplyNOptionalConstraints" or has_nested_force_apply(c))]
    hs = {c["name"]: holds(c, v) for c in opt}
    sure = [n for n, x in hs.items() if x == T]
    maybe = [n for n, x in hs.items() if True in x]

    def some(names, need_T):
        for r in range(len(names) + 1):
            for a in itertools.combinations(names, r):
                v.applied_env = {c["name"]: c["name"] in a for c in opt}
                vals = [(h_force_apply(c, v, False) if c["type"] == "ForceApplyNOptionalConstraints" else holds(c, v)) for c in deps]
                if all((x == T) if need_T else (True in x) for x in vals):
                    return True
        return False

    try:
        if some(sure, True):
            return T
        return U if some(maybe, False) else F
    finally:
        v.applied_env = None


_HOLDS = {
    "TaskStartAt": h_single, "TaskEndAt": h_single, "TaskStartAfter": h_single, "TaskEndBefore": h_single,
    "TaskPrecedence": h_precedence, "GroupPrecedence": h_group_precedence,
    "TasksStartSynced": h_pair, "TasksEndSynced": h_pair, "TasksDontOverlap": h_pair,
    "TasksContiguous": h_contiguous,
    "UnorderedTaskGroup": h_group, "OrderedTaskGroup": h_group,
    "ScheduleNTasksInTimeIntervals": h_schedule_n,
    "OptionalTaskForceSchedule": h_force_schedule, "OptionalTaskConditionSchedule": h_condition,
    "OptionalTasksDependency": h_dependency, "ForceScheduleNOptionalTasks": h_force_n,
    "ResourceUnavailable": h_unavailable, "ResourcePeriodicallyUnavailable": h_periodic_unavailable,
    "WorkLoad": h_workload, "ResourceTasksDistance": h_distance, "ResourceNonDelay": h_nondelay,
    "ResourceInterrupted": h_interrupted, "ResourcePeriodicallyInterrupted": h_periodic_interrupted,
    "SameWorkers": h_same_distinct, "DistinctWorkers": h_same_distinct,
    "ConstraintFromExpression": h_expr, "Not": h_not, "Or": h_or, "And": h_and, "Xor": h_xor,
    "Implies": h_implies, "IfThenElse": h_ite, "ForceApplyNOptionalConstraints": h_force_apply,
}


# =============================================================================================
# buffers
# =============================================================================================
def buffer_events(spec, v, bname):
    ev = []
    for c in spec.get("constraints", []):
        if c["type"] in ("TaskUnloadBuffer", "TaskLoadBuffer") and c["buffer"] == bname and v.sch(c["task"]):
            if c["type"] == "TaskUnloadBuffer":
                ev.append((v.start(c["task"]), -c["qty"], c["task"]))
            else:
                ev.append((v.end(c["task"]), +c["qty"], c["task"]))
    return sorted(ev)


def buffer_profile(spec, v, bname, initial):
    """expected (times, levels): levels[0] = initial, one entry per distinct instant."""
    ev = buffer_events(spec, v, bname)
    times, levels = [], [initial]
    cur = initial
    for t, grp in itertools.groupby(ev, key=lambda x: x[0]):
        cur += sum(q for _, q, _ in grp)
        times.append(t)
        levels.append(cur)
    return times, levels


def dedup_reported(levels, times):
    """what the solution reports from raw level / time lists (first occurrence of each instant)."""
    out_l, out_t = [levels[0]], []
    for lv, tm in zip(levels[1:], times):
        if tm not in out_t:
            out_l.append(lv)
            out_t.append(tm)
    return out_l, out_t


def judge_buffers(spec, v, verdict, reported=None):
    """reported: {bname: {"levels": [...], "times": [...]}} as delivered with a solution (already
    de-duplicated), or None when judging a candidate (then only bounds / final / ties)."""
    for b in spec.get("buffers", []):
        bn = b["name"]
        ev = buffer_events(spec, v, bn)
        ties = len(set(t for t, _, _ in ev)) < len(ev)
        if not b.get("concurrent"):
            verdict.add("BUF", "non_concurrent_no_tie", bn, tv(not ties))
        rep = (reported or {}).get(bn)
        if b.get("initial") is not None:
            init = b["initial"]
        elif rep is not None and rep["levels"]:
            init = rep["levels"][0]
        else:
            init = None
        if init is None:
            # initial level is existential: final level fixes it
            if b.get("final") is not None:
                init = b["final"] - sum(q for _, q, _ in ev)
            else:
                verdict.add("BUF", "undetermined", bn, U)
                continue
        times, levels = buffer_profile(spec, v, bn, init)
        verdict.derived.setdefault("buffers", {})[bn] = {"times": times, "levels": levels}
        if b.get("final") is not None:
            verdict.add("BUF", "final_level", bn, tv(levels[-1] == b["final"]), (levels, b["final"]))
        if b.get("lower") is not None:
            verdict.add("BUF", "lower_bound", bn, tv(all(x >= b["lower"] for x in levels)), levels)
        if b.get("upper") is not None:
            verdict.add("BUF", "upper_bound", bn, tv(all(x <= b["upper"] for x in levels)), levels)
        if rep is not None:
            ok = list(rep["levels"]) == levels and list(rep["times"]) == times
            if ties and not b.get("concurrent"):
                continue
            verdict.add("BUF", "reported_profile", bn, tv(ok), {"reported": rep, "expected": {"times": times, "levels": levels}})


# =============================================================================================
# indicators
# =============================================================================================
def _busy_len(v, res):
    ivs = _res_intervals(v, res)
    return ivs


def indicator_value(i, v, spec):
    """returns (lo, hi, exactness) : the documented value lies in [lo, hi] (Fractions); None if the
    documentation does not determine it."""
    t = i["type"]
    if t in ("Tardiness", "Earliness", "NumberOfTardyTasks", "MaximumLateness"):
        names = i.get("tasks")
        if names is None:
            names = [x["name"] for x in spec["tasks"]]
        names = [n for n in names if v.sch(n)]
        if any(v.tspec[n].get("due") is None for n in names):
            return None
        if t == "Tardiness":
            val = sum((v.tspec[n].get("priority", 1) if v.tspec[n].get("priority") is not None else 1) * max(0, v.end(n) - v.tspec[n]["due"]) for n in names)
        elif t == "Earliness":
            val = sum(max(0, v.tspec[n]["due"] - v.end(n)) for n in names)
        elif t == "NumberOfTardyTasks":
            val = sum(1 for n in names if v.end(n) > v.tspec[n]["due"])
        else:
            all_names = i.get("tasks") or [x["name"] for x in spec["tasks"]]
            if not names or len(names) < len(all_names):
                return None  # maximum over a list with unscheduled members: not specified
            val = max(v.end(n) - v.tspec[n]["due"] for n in names)
        return (Fraction(val), Fraction(val))
    if t == "ResourceUtilization":
        H = v.H
        if H <= 0:
            return None
        ivs = _res_intervals(v, i["res"])
        if any(be < bs for _, bs, be, _, _ in ivs):
            return None
        lo = sum((be - bs) * m0 for _, bs, be, m0, m1 in ivs)
        hi = sum((be - bs) * m1 for _, bs, be, m0, m1 in ivs)
        if i["res"] in v.cspec:
            # percentage of what? (capacity or horizon) - not documented for cumulative workers
            return None
        return (Fraction(100 * lo, H), Fraction(100 * hi, H))
    if t == "NumberTasksAssigned":
        if i["res"] in v.cspec:
            return None  # indicators over a cumulative worker (other than cost bounds): not specified
        ivs = _res_intervals(v, i["res"])
        return (Fraction(len(ivs)), Fraction(len(ivs)))
    if t == "ResourceIdle":
        if i["res"] in v.cspec:
            return None
        ivs = _sorted_pairs(v, i["res"])
        if _distance_open(ivs):
            return None
        val = sum(s1 - e0 for (s0, e0, _), (s1, e1, _) in zip(ivs, ivs[1:]))
        return (Fraction(val), Fraction(val))
    if t == "ResourceCost":
        lo = hi = Fraction(0)
        for r in i["ress"]:
            if r in v.cspec:
                cs = v.cspec[r]
                c = cs.get("cost")
                if c is None:
                    continue
                if c["t"] != "const":
                    return None
                size = cs["size"]
                shares = lane_shares(c["v"], size)
                for tn, bs, be, m0, m1 in _res_intervals(v, r):
                    if be < bs:
                        return None
                    ln = be - bs
                    # a task occupies between 1 and `size` lanes, each lane carrying a share
                    cands = [min(shares) * ln, c["v"] * ln, max(shares) * ln, 0]
                    lo += min(cands)
                    hi += max(cands)
            else:
                c = v.wspec[r].get("cost")
                for tn, bs, be, _, _ in _res_intervals(v, r):
                    if be < bs:
                        return None
                    trap = (cost_value(c, bs) + cost_value(c, be)) * (be - bs) / 2
                    integ = cost_integral(c, bs, be)
                    lo += min(trap, integ)
                    hi += max(trap, integ)
        return (lo, hi)
    if t in ("MaxBufferLevel", "MinBufferLevel"):
        prof = v._buffer_profiles.get(i["buffer"]) if hasattr(v, "_buffer_profiles") else None
        if prof is None:
            return None
        val = max(prof["levels"]) if t == "MaxBufferLevel" else min(prof["levels"])
        return (Fraction(val), Fraction(val))
    if t == "FromMathExpression":
        val = eval_expr(i["expr"], v)
        if val is None or isinstance(val, bool):
            return None
        # variables of unscheduled tasks: 'as written' uses raw values; left open
        if any(not v.sch(n) for n in expr_tasks(i["expr"])):
            return None
        return (Fraction(val), Fraction(val))
    return None


def judge_indicators(spec, v, verdict, reported):
    """reported: {indicator id: int}"""
    for i in spec.get("indicators", []):
        if i["id"] not in reported:
            continue
        rng = indicator_value(i, v, spec)
        rep = reported[i["id"]]
        if rng is None:
            verdict.add("IND", "value:" + i["type"], i["id"], U, rep)
            continue
        lo, hi = rng
        verdict.derived.setdefault("indicators", {})[i["id"]] = (lo, hi)
        ok = lo - 1 < rep < hi + 1
        verdict.add("IND", "value:" + i["type"], i["id"], tv(ok), {"reported": rep, "expected": [str(lo), str(hi)]})
    for c in spec.get("constraints", []):
        if c["type"] == "IndicatorTarget" and c["ind"] in reported and not c.get("optional"):
            verdict.add("IND", "target", c.get("name"), tv(reported[c["ind"]] == c["value"]), reported[c["ind"]])
        if c["type"] == "IndicatorBounds" and c["ind"] in reported and not c.get("optional"):
            r = reported[c["ind"]]
            ok = (c.get("lo") is None or r >= c["lo"]) and (c.get("hi") is None or r <= c["hi"])
            verdict.add("IND", "bounds", c.get("name"), tv(ok), r)


# =============================================================================================
# the judge
# =============================================================================================
def judge(spec, sched, reported_buffers=None, reported_indicators=None, from_model=True):
    """Evaluate every element of spec on the schedule.

    from_model: the schedule carries raw busy intervals / lane choices read from a z3 model (the
    assignment rules W3 are then checked on them)."""
    v = View(spec, sched)
    vd = Verdict()
    H = v.H

    # ---- tasks (C01) ------------------------------------------------------------------------
    for t in spec.get("tasks", []):
        n = t["name"]
        if not v.sch(n):
            continue
        s, e = v.start(n), v.end(n)
        vd.add("T", "start_ge_0", n, tv(s >= 0), s)
        vd.add("T", "end_le_horizon", n, tv(e <= H), (e, H))
        d = v.dur(n)
        ok = e - s == d
        if t["kind"] == "var":
            mn = t.get("min_duration") or 0
            ok = ok and d >= mn
            if t.get("max_duration") is not None:
                ok = ok and d <= t["max_duration"]
            if t.get("allowed") is not None:
                ok = ok and d in t["allowed"]
        vd.add("T", "duration", n, tv(ok), (s, e, d))
        if t.get("release") is not None:
            vd.add("T", "release", n, tv(s >= t["release"]), (s, t["release"]))
        if t.get("due") is not None and t.get("deadline", True):
            vd.add("T", "deadline", n, tv(e <= t["due"]), (e, t["due"]))

    # ---- resources (C02) --------------------------------------------------------------------
    for ai, a in enumerate(spec.get("assign", [])):
        tn = a["task"]
        if not v.sch(tn):
            continue
        rec = sched["assign"][ai]
        s, e = v.start(tn), v.end(tn)
        if a["res"] in v.wspec:
            b = rec["busy"].get(a["res"])
            if b is not None:
                if a.get("dynamic"):
                    vd.add("W", "dynamic_span", f"{tn}/{a['res']}", tv(s <= b[0] <= b[1] <= e), (b, s, e))
                else:
                    exp = [s + (a.get("delay_in") or 0), e - (a.get("early_out") or 0)]
                    vd.add("W", "static_span", f"{tn}/{a['res']}", tv(list(b) == exp), (b, exp))
        elif a["res"] in v.cspec:
            ch = rec.get("chosen")
            if ch is not None and from_model:
                lanes = [w for w, c in ch.items() if c]
                vd.add("W", "cumulative_occupied", f"{tn}/{a['res']}", tv(len(lanes) >= 1), lanes)
                for w in lanes:
                    b = rec["busy"].get(w)
                    if b is not None:
                        vd.add("W", "lane_span", f"{tn}/{w}", tv(list(b) == [s, e]), (b, s, e))
        else:
            ss = v.sspec[a["res"]]
            ch = rec.get("chosen") or {}
            chosen = [w for w, c in ch.items() if c]
            vd.add("W", "selection_from_list", a["res"], tv(all(w in ss["workers"] for w in chosen)), chosen)
            vd.add("W", "selection_count", a["res"], tv(_count(ss["kind"], len(chosen), ss["n"])), (chosen, ss["kind"], ss["n"]))
            for w in chosen:
                b = rec["busy"].get(w)
                if b is not None:
                    vd.add("W", "selected_span", f"{tn}/{w}", tv(list(b) == [s, e]), (b, s, e))

    eff = v.effective()
    for wn in v.wspec:
        ivs = [(bs, be, tn) for tn, bs, be, _ in eff[wn]]
        res = []
        for (s0, e0, t0), (s1, e1, t1) in itertools.combinations(ivs, 2):
            if e0 < s0 or e1 < s1:
                res.append(U)
            elif e0 > s0 and e1 > s1:
                res.append(tv(not (max(s0, s1) < min(e0, e1))))
            elif e0 == s0 and e1 == s1:
                res.append(T)
            else:
                z, (a, b) = (s0, (s1, e1)) if e0 == s0 else (s1, (s0, e0))
                res.append(U if a < z < b else T)
        if res:
            vd.add("W", "worker_exclusive", wn, t_and(res), sorted(ivs))
    for cn, cs in v.cspec.items():
        ivs = [(bs, be) for tn, bs, be, _ in eff[cn]]
        pos = [(a, b) for a, b in ivs if b > a]
        zero = [a for a, b in ivs if a == b]
        peak = 0
        for t0 in sorted(set(a for a, b in pos)):
            peak = max(peak, sum(1 for a, b in pos if a <= t0 < b))
        strict_peak = peak
        for z in zero:
            strict_peak = max(strict_peak, sum(1 for a, b in pos if a < z < b) + sum(1 for z2 in zero if z2 == z))
        if ivs:
            if peak > cs["size"]:
                vd.add("W", "cumulative_capacity", cn, F, (sorted(ivs), cs["size"]))
            elif strict_peak > cs["size"]:
                vd.add("W", "cumulative_capacity", cn, U, (sorted(ivs), cs["size"]))
            else:
                vd.add("W", "cumulative_capacity", cn, T)

    lanes_verdict = None
    for t in spec.get("tasks", []):
        n = t["name"]
        wa = t.get("work_amount") or 0
        if wa <= 0 or not v.sch(n):
            continue
        lo = hi = 0
        has = False
        open_ = False
        for ai, a in enumerate(spec.get("assign", [])):
            if a["task"] != n:
                continue
            has = True
            rec = sched["assign"][ai]
            s, e = v.start(n), v.end(n)
            if a["res"] in v.wspec:
                b = rec["busy"].get(a["res"]) or [s + (a.get("delay_in") or 0), e - (a.get("early_out") or 0)]
                p = v.wspec[a["res"]].get("productivity")
                p = 1 if p is None else p
                lo += p * (b[1] - b[0])
                hi += p * (b[1] - b[0])
            elif a["res"] in v.cspec:
                cs = v.cspec[a["res"]]
                p = cs.get("productivity")
                p = 1 if p is None else p
                shares = lane_shares(p, cs["size"])
                lo += min(shares) * (e - s)
                hi += p * (e - s)
            else:
                ch = rec.get("chosen") or {}
                for w, c in ch.items():
                    if not c:
                        continue
                    if w in v.cspec:
                        # a cumulative worker chosen through a selection works like a directly required one: the task
                        # occupies one or more of its elementary workers, each carrying a share of the productivity
                        cs = v.cspec[w]
                        p = 1 if cs.get("productivity") is None else cs["productivity"]
                        lo += min(lane_shares(p, cs["size"])) * (e - s)
                        hi += p * (e - s)
                    else:
                        p = v.wspec[w].get("productivity") if w in v.wspec else None
                        p = 1 if p is None else p
                        lo += p * (e - s)
                        hi += p * (e - s)
        if has:
            val = T if lo >= wa else (U if hi >= wa else F)
            if val == U and lanes_verdict is None:
                lanes_verdict = _lane_witnesses(spec, v, sched)
            if val == U and lanes_verdict is not None:
                # the open case is which elementary workers ("lanes") of a cumulative worker the tasks occupy: decided by
                # search over the lane choices of all tasks together
                val = lanes_verdict
            vd.add("W", "work_amount", n, val, (lo, hi, wa))

    # ---- constraints ------------------------------------------------------------------------
    applied = sched.get("applied") or {}
    nested_fa = any(has_nested_force_apply(c) for c in spec.get("constraints", []))
    if nested_fa:
        if all(applied.get(c.get("name")) is not None for c in spec["constraints"] if c.get("optional")):
            v.applied_env = dict(applied)  # the flags of the model
        elif from_model is False or not applied:
            vd.add("FOL", "force_apply_joint", None, force_apply_joint(spec, v))
    for c in spec.get("constraints", []):
        ty = c["type"]
        fam = CONSTRAINT_FAMILY[ty]
        if fam in ("BUF", "IND"):
            continue
        if ty == "ForceApplyNOptionalConstraints":
            continue
        if nested_fa and v.applied_env is None and has_nested_force_apply(c):
            continue  # judged jointly above
        val = holds(c, v)
        if c.get("optional"):
            ap = applied.get(c.get("name"))
            if ap is None:
                continue  # candidate without applied flags: an optional constraint binds nothing
            if ap:
                vd.add(fam, "applied_holds:" + ty, c.get("name"), val)
                vd.add("FOL", "applied_holds", c.get("name"), val)
            continue
        vd.add(fam, ty, c.get("name"), val)
    for c in spec.get("constraints", []):
        if c["type"] != "ForceApplyNOptionalConstraints":
            continue
        byname = {x.get("name"): x for x in spec["constraints"]}
        if all(applied.get(n) is not None for n in c["cs"]):
            if c.get("optional") and not applied.get(c.get("name")):
                continue
            cnt = sum(1 for n in c["cs"] if applied[n])
            vd.add("FOL", "force_apply_count", c.get("name"), tv(_count(c["kind"], cnt, c["n"])), cnt)
        else:
            if c.get("optional"):
                continue
            hs = [holds(byname[n], v) for n in c["cs"]]
            sure = sum(1 for x in hs if x == T)
            maybe = sum(1 for x in hs if True in x)
            if c["kind"] == "max":
                vd.add("FOL", "force_apply_count", c.get("name"), T)
            else:
                vd.add("FOL", "force_apply_count", c.get("name"), T if sure >= c["n"] else (U if maybe >= c["n"] else F), (sure, maybe))

    # ---- buffers ----------------------------------------------------------------------------
    judge_buffers(spec, v, vd, reported_buffers)
    v._buffer_profiles = vd.derived.get("buffers", {})

    # ---- indicators -------------------------------------------------------------------------
    if reported_indicators is not None:
        judge_indicators(spec, v, vd, reported_indicators)
    else:
        # candidate mode: indicator constraints restrict the valid schedules through the documented value
        byid = {i["id"]: i for i in spec.get("indicators", [])}
        for c in spec.get("constraints", []):
            if c["type"] not in ("IndicatorTarget", "IndicatorBounds") or c.get("optional"):
                continue
            rng = indicator_value(byid[c["ind"]], v, spec)
            if rng is None or rng[0] != rng[1] or rng[0].denominator != 1:
                if rng is not None and c["type"] == "IndicatorBounds":
                    lo_ok = c.get("lo") is None or rng[0] >= c["lo"]
                    hi_ok = c.get("hi") is None or rng[1] <= c["hi"]
                    lo_no = c.get("lo") is not None and rng[1] + 1 <= c["lo"]
                    hi_no = c.get("hi") is not None and rng[0] - 1 >= c["hi"]
                    vd.add("IND", "bounds", c.get("name"), T if (lo_ok and hi_ok and rng[0] == rng[1]) else (F if (lo_no or hi_no) else U))
                else:
                    vd.add("IND", "target", c.get("name"), U)
                continue
            val = int(rng[0])
            if c["type"] == "IndicatorTarget":
                vd.add("IND", "target", c.get("name"), tv(val == c["value"]), val)
            else:
                ok = (c.get("lo") is None or val >= c["lo"]) and (c.get("hi") is None or val <= c["hi"])
                vd.add("IND", "bounds", c.get("name"), tv(ok), val)
    vd.view = v
    return vd


# =============================================================================================
# objectives (C07)
# =============================================================================================
def objective_kind(o):
    return "maximize" if o["type"].startswith("Maximize") or o["type"] == "TasksStartLatest" else "minimize"


def objective_value(o, v, spec):
    """documented value of one objective on the schedule viewed by v; None if not determined."""
    t = o["type"]
    names_all = [x["name"] for x in spec["tasks"]]
    prio = lambda n: 1 if v.tspec[n].get("priority") is None else v.tspec[n]["priority"]
    if t == "MinimizeMakespan":
        sch = [n for n in names_all if v.sch(n)]
        if len(sch) < len(names_all) or not sch:
            return None  # where unscheduled tasks are parked must not matter; left open
        return Fraction(max(v.end(n) for n in sch))
    if t in ("Priorities", "TasksStartEarliest", "MinimizeFlowtime"):
        names = names_all if t != "MinimizeFlowtime" or o.get("tasks") is None else o["tasks"]
        tot = 0
        for n in names:
            if not v.sch(n):
                continue
            if t == "Priorities":
                tot += v.end(n) * prio(n)
            elif t == "TasksStartEarliest":
                tot += v.start(n) * prio(n)
            else:
                tot += v.end(n)
        return Fraction(tot)
    if t in ("TasksStartLatest", "MinimizeGreatestStartTime"):
        names = names_all if o.get("tasks") is None else o["tasks"]
        names = [n for n in names if v.sch(n)]  # an unscheduled task contributes to no objective (C06)
        if not names:
            return None
        vals = [v.start(n) for n in names]
        return Fraction(min(vals) if t == "TasksStartLatest" else max(vals))
    if t == "MaximizeResourceUtilization":
        rng = indicator_value({"type": "ResourceUtilization", "res": o["res"]}, v, spec)
        return None if rng is None else ("range", rng)
    if t == "MinimizeResourceCost":
        rng = indicator_value({"type": "ResourceCost", "ress": o["ress"]}, v, spec)
        return None if rng is None else ("range", rng)
    if t in ("MaximizeMaxBufferLevel", "MinimizeMaxBufferLevel"):
        rng = indicator_value({"type": "MaxBufferLevel", "buffer": o["buffer"]}, v, spec)
        return None if rng is None else ("range", rng)
    if t in ("MinimizeIndicator", "MaximizeIndicator"):
        i = next(x for x in spec["indicators"] if x["id"] == o["ind"])
        rng = indicator_value(i, v, spec)
        return None if rng is None else ("range", rng)
    return None
