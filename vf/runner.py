"""Sharded runner, accounting, replay files and evidence (DESIGN.md section 2.5)."""
import collections
import hashlib
import importlib
import json
import multiprocessing
import os
import signal
import sys
import time
import traceback

ROOT = os.path.dirname(os.path.dirname(os.path.abspath(__file__)))
NPROC = int(os.environ.get("VF_NPROC", "16"))

PROPS = [f"C{i:02d}" for i in range(1, 20)]


CASE_TIMEOUT_S = int(os.environ.get("VF_CASE_TIMEOUT_S", "90"))
THOROUGH_SCALE = float(os.environ.get("VF_THOROUGH_SCALE", "2"))  # thorough budgets of the property modules are multiplied by this
HANG_TIMEOUT_S = int(os.environ.get("VF_HANG_TIMEOUT_S", "240"))
CURRENT_CTX = None


class CaseTimeout(BaseException):
    """raised by SIGALRM when one generated case exceeds the per-case wall-clock guard"""


def _on_alarm(signum, frame):
    raise CaseTimeout()


class Violation(Exception):
    """Raised inside a generated case after the violation has been recorded in the Ctx."""


def canon(obj) -> str:
    return json.dumps(obj, sort_keys=True, separators=(",", ":"), default=str)


def digest(obj) -> str:
    return hashlib.sha1(canon(obj).encode()).hexdigest()[:16]


class Ctx:
    """Per-shard accounting object handed to the property code."""

    def __init__(self, prop, tier, seed, shard, nshards, collect=False, budget_s=None):
        self.prop = prop
        self.tier = tier
        self.seed = seed
        self.shard = shard
        self.nshards = nshards
        self.shard_seed = seed * 1000 + shard
        self.collect = collect
        self.counters = collections.Counter()
        self.evaluations = 0
        self.nontrivial = set()
        self.samples = []
        self.violations = {}
        self.known = collections.Counter()
        self.inconclusive = 0
        self.t0 = time.time()
        self.budget_s = budget_s
        self.case_no = 0
        self.shrinking = False  # set by run_hypothesis when the shrink phase is on
        self.case_t0 = None  # start of the case being executed (watchdog, see vf/shard.py)
        self.replaying = False  # replay of a recorded case: known findings are not tolerated, the case is re-judged as is

    # -- accounting -------------------------------------------------------------------------
    def event(self, label, n=1):
        self.counters[label] += n

    def evaluation(self, n=1):
        self.evaluations += n

    def nontrivial_case(self, obj):
        self.nontrivial.add(digest(obj))

    def sample(self, obj, cap=4):
        if len(self.samples) < cap:
            self.samples.append(obj)

    def out_of_time(self):
        if self.budget_s is None:
            return False
        if time.time() - self.t0 > self.budget_s:
            self.counters["skipped_wall_clock_guard"] += 1
            return True
        return False

    # -- violations ---------------------------------------------------------------------------
    def violation(self, record, bucket=None, raise_=True):
        """record: JSON-able dict with at least 'check' and 'rule'."""
        from . import known

        record = dict(record)
        record["property"] = self.prop
        hit = None if self.replaying else known.match(self.prop, record)
        if hit is not None:
            self.known[hit] += 1
            self.counters["excluded_by_known_finding"] += 1
            return
        bucket = bucket or f"{record.get('check')}|{record.get('rule')}"
        size = len(canon(record))
        old = self.violations.get(bucket)
        if old is None or size <= old[0]:
            self.violations[bucket] = (size, record)
        self.counters["violation_observations"] += 1
        if raise_ and self.shrinking and not self.collect:
            raise Violation(bucket)

    def checkpoint(self):
        """write what was explored so far to the shard's result file: a later abort of the process inside native code
        (z3) then only loses the stratum that was running"""
        out = os.environ.get("VF_SHARD_OUT")
        if not out:
            return
        try:
            tmp = out + ".tmp"
            with open(tmp, "w") as fh:
                json.dump(("ok", self.summary()), fh, default=str)
            os.replace(tmp, out)
        except OSError:
            pass

    def summary(self):
        return {
            "counters": dict(self.counters),
            "evaluations": self.evaluations,
            "nontrivial": sorted(self.nontrivial),
            "samples": self.samples,
            "violations": {k: v[1] for k, v in self.violations.items()},
            "known": dict(self.known),
            "inconclusive": self.inconclusive,
            "wall_s": time.time() - self.t0,
        }


# ---------------------------------------------------------------------------------------------
def run_hypothesis(ctx, strategy, fn, max_examples, shrink=None):
    """Drive fn(ctx, case) with Hypothesis, seeded from the shard seed."""
    import hypothesis
    from hypothesis import HealthCheck, Phase, given, settings

    signal.signal(signal.SIGALRM, _on_alarm)

    if shrink is None:
        shrink = ctx.tier == "thorough"
    if ctx.tier == "thorough":
        max_examples = int(max_examples * THOROUGH_SCALE)
    phases = [Phase.generate] + ([Phase.shrink] if shrink and not ctx.collect else [])
    ctx.shrinking = Phase.shrink in phases

    @hypothesis.seed(ctx.shard_seed)
    @settings(
        max_examples=max_examples,
        database=None,
        deadline=None,
        derandomize=False,
        report_multiple_bugs=False,
        suppress_health_check=list(HealthCheck),
        phases=phases,
        print_blob=False,
    )
    @given(strategy)
    def test(case):
        if ctx.out_of_time():
            return
        if not ctx.shrinking and not ctx.collect and len(ctx.violations) >= 3:
            return  # enough distinct buckets recorded in this shard; do not burn the budget
        ctx.case_no += 1
        ctx.case_t0 = time.time()
        signal.alarm(CASE_TIMEOUT_S)
        try:
            fn(ctx, case)
        except CaseTimeout:
            # inconclusive, never a violation (e.g. an optimisation loop that does not terminate in time)
            ctx.counters["case_wall_clock_timeout"] += 1
            ctx.inconclusive += 1
        finally:
            signal.alarm(0)
            ctx.case_t0 = None

    try:
        test()
    except Violation:
        pass
    except hypothesis.errors.Flaky:
        # z3 may return another model when Hypothesis re-executes a failing case; the violation
        # itself was recorded with its concrete schedule (replayable without Hypothesis)
        if not ctx.violations:
            raise
        ctx.counters["hypothesis_flaky_reexecution"] += 1
    finally:
        ctx.shrinking = False
        ctx.checkpoint()


def load_prop(prop):
    return importlib.import_module(f"vf.props.{prop.lower()}")


def _worker(args):
    prop, tier, seed, shard, nshards, collect, budget_s = args
    try:
        from . import env  # noqa: F401  (pins, imports the package under test)

        mod = load_prop(prop)
        ctx = Ctx(prop, tier, seed, shard, nshards, collect, budget_s)
        global CURRENT_CTX
        CURRENT_CTX = ctx
        mod.run_shard(ctx)
        return ("ok", ctx.summary())
    except Exception as exc:  # harness failure, never a violation
        return ("harness-error", f"{type(exc).__name__}: {exc}\n{traceback.format_exc()}")


def run_shards(prop, tier, seed, nshards, collect, budget_s):
    """one OS process per shard (a crash of the code under test, e.g. inside z3, cannot hang the run)"""
    import subprocess
    import tempfile

    tmp = tempfile.mkdtemp(prefix="vf_shards_")
    procs = []
    try:
        for i in range(nshards):
            out = os.path.join(tmp, f"shard{i}.json")
            cmd = [sys.executable, "-m", "vf.shard", prop, tier, str(seed), str(i), str(nshards), "1" if collect else "0", str(budget_s), out]
            procs.append((i, out, subprocess.Popen(cmd, cwd=ROOT, stdout=subprocess.DEVNULL, stderr=subprocess.DEVNULL, env=dict(os.environ, VF_SHARD_OUT=out))))
        deadline = time.time() + budget_s + 240
        results, crashed = [], []
        for i, out, p in procs:
            try:
                rc = p.wait(timeout=max(1.0, deadline - time.time()))
            except subprocess.TimeoutExpired:
                p.kill()
                p.wait()
                rc = "timeout"
            if os.path.exists(out):
                with open(out) as fh:
                    status, res = json.load(fh)
                if rc != 0 and status == "ok":
                    # the process died after a checkpoint: what it had explored until then is kept
                    res["counters"][f"shard_process_died_after_checkpoint_rc={rc}"] = 1
                results.append((status, res))
            else:
                crashed.append((i, rc))
        for i, rc in crashed:
            results.append(("crashed", {"shard": i, "rc": rc}))
        return results, crashed
    finally:
        import shutil

        shutil.rmtree(tmp, ignore_errors=True)


def write_replay(prop, record):
    os.makedirs(os.path.join(ROOT, "replays"), exist_ok=True)
    path = os.path.join("replays", f"{prop}-{digest(record)}.json")
    with open(os.path.join(ROOT, path), "w") as fh:
        json.dump(record, fh, indent=1, sort_keys=True, default=str)
    return path


def replay_file(prop, path):
    """Returns (violated: bool, info)."""
    from . import env  # noqa: F401

    with open(path if os.path.isabs(path) else os.path.join(ROOT, path)) as fh:
        record = json.load(fh)
    mod = load_prop(record.get("property", prop))
    return mod.replay(record)


def main_check(prop, tier, seed, collect=False):
    from . import known

    t0 = time.time()
    mod_budget = {"quick": 150.0, "thorough": 1500.0}[tier]
    budget_s = float(os.environ.get("VF_BUDGET_S", mod_budget))
    exit_code = 0
    lines = []

    # 1. regression tier: replays of fixed findings must not come back
    regress_dir = os.path.join(ROOT, "regress")
    n_regress = 0
    if os.path.isdir(regress_dir):
        for fn in sorted(os.listdir(regress_dir)):
            if fn.startswith(prop + "-") and fn.endswith(".json"):
                n_regress += 1
                try:
                    bad, info = replay_file(prop, os.path.join("regress", fn))
                except Exception as exc:
                    print(f"HARNESS-ERROR replay {fn}: {exc!r}")
                    traceback.print_exc(file=sys.stdout)
                    return 2
                if bad:
                    lines.append(f"VIOLATION property={prop} replay=regress/{fn}")
                    exit_code = 1

    # 2. open known findings: replay reproducers
    known_lines = []
    for kf in known.open_findings(prop):
        try:
            bad, info = replay_file(prop, kf["reproducer"])
        except Exception as exc:
            print(f"HARNESS-ERROR known-finding replay {kf['id']}: {exc!r}")
            traceback.print_exc(file=sys.stdout)
            return 2
        if bad:
            known_lines.append(f"KNOWN-FINDING: property={prop} {kf['id']}: {kf['what']}")
        else:
            print(f"note: known finding {kf['id']} no longer reproduces")

    # 3. generated search, sharded
    nshards = NPROC
    results, crashed = run_shards(prop, tier, seed, nshards, collect, budget_s)

    counters = collections.Counter()
    evaluations = 0
    nontrivial = set()
    samples = []
    violations = {}
    knownc = collections.Counter()
    n_crashed = 0
    for status, res in results:
        if status == "crashed":
            # the shard process died (signal / hard timeout) without reporting: what it explored is
            # lost; inconclusive for that shard, counted in the evidence
            n_crashed += 1
            counters[f"shard_process_died_rc={res['rc']}"] += 1
            continue
        if status != "ok":
            print("HARNESS-ERROR " + res)
            return 2
        counters.update(res["counters"])
        evaluations += res["evaluations"]
        nontrivial.update(res["nontrivial"])
        for s in res["samples"]:
            if len(samples) < 5:
                samples.append(s)
        for b, rec in res["violations"].items():
            if b not in violations or len(canon(rec)) < len(canon(violations[b])):
                violations[b] = rec
        knownc.update(res["known"])

    for b, rec in sorted(violations.items()):
        path = write_replay(prop, rec)
        lines.append(f"VIOLATION property={prop} replay={path}")
        print(f"  bucket {b}: {canon(rec.get('observed', ''))[:300]}")
        exit_code = 1

    if n_crashed > nshards // 2:
        print(f"HARNESS-ERROR {n_crashed} of {nshards} shard processes died without a result")
        return 2
    if exit_code == 0 and len(nontrivial) < 2:
        # nothing non-trivial was decided (e.g. every case inconclusive): the run says nothing about the property
        print(f"HARNESS-ERROR vacuous run: {evaluations} evaluations, {len(nontrivial)} non-trivial cases")
        return 2
    mod = load_prop(prop)
    evidence = {
        "property_id": prop,
        "tier": tier,
        "seed": seed,
        "level": "exploration",
        "coverage": {
            "evaluations": evaluations,
            "distinct_nontrivial": len(nontrivial),
            "rule": getattr(mod, "RULE", ""),
            "samples": samples,
            "class_histogram": dict(sorted(counters.items())),
            "regress_replays": n_regress,
            "known_findings_tolerated": dict(knownc),
            "exhaustive": bool(getattr(mod, "EXHAUSTIVE", False)),
        },
        "assumptions": getattr(mod, "ASSUMPTIONS", []),
        "wall_s": round(time.time() - t0, 2),
        "violations": len(violations) + sum(1 for l in lines if "regress/" in l),
    }
    # evidence/ only ever describes runs against /repo itself; a run pointed at another tree (VF_REPO, used by the
    # sensitivity tools) writes its summary elsewhere
    evdir = "evidence" if os.path.realpath(os.environ.get("VF_REPO", "/repo")) == "/repo" else ".evidence_other_tree"
    os.makedirs(os.path.join(ROOT, evdir), exist_ok=True)
    with open(os.path.join(ROOT, evdir, f"{prop}.json"), "w") as fh:
        json.dump(evidence, fh, indent=1, sort_keys=True, default=str)

    for l in known_lines:
        print(l)
    for l in lines:
        print(l)
    print(
        f"{prop} {tier} seed={seed}: evaluations={evaluations} distinct_nontrivial={len(nontrivial)} "
        f"violations={len(violations)} known_tolerated={sum(knownc.values())} wall={time.time()-t0:.1f}s"
    )
    if collect:
        for k, v in sorted(counters.items()):
            print(f"    {k}: {v}")
    return exit_code
