"""One shard of one check, run as its own OS process:  python -m vf.shard <prop> <tier> <seed> <shard> <nshards> <collect> <budget_s> <outfile>"""
import json
import sys


def main(argv):
    prop, tier, seed, shard, nshards, collect, budget_s, out = argv
    from . import runner

    res = runner._worker((prop, tier, int(seed), int(shard), int(nshards), collect == "1", float(budget_s)))
    tmp = out + ".tmp"
    with open(tmp, "w") as fh:
        json.dump(res, fh, default=str)
    import os

    os.replace(tmp, out)
    return 0


if __name__ == "__main__":
    sys.exit(main(sys.argv[1:]))
