"""One shard of one check, run as its own OS process:  python -m vf.shard <prop> <tier> <seed> <shard> <nshards> <collect> <budget_s> <outfile>"""
import json
import os
import sys
import threading
import time


def _write(out, res):
    tmp = out + ".tmp"
    with open(tmp, "w") as fh:
        json.dump(res, fh, default=str)
    os.replace(tmp, out)


def _watchdog(out):
    """a case stuck inside z3's C code cannot be interrupted by SIGALRM: after HANG_TIMEOUT_S the shard reports what it
    has explored so far (the stuck case is inconclusive) and exits"""
    from . import runner

    while True:
        time.sleep(5)
        ctx = runner.CURRENT_CTX
        if ctx is not None and ctx.case_t0 is not None and time.time() - ctx.case_t0 > runner.HANG_TIMEOUT_S:
            ctx.counters["case_stuck_in_native_code_shard_stopped"] += 1
            ctx.inconclusive += 1
            try:
                _write(out, ("ok", ctx.summary()))
            finally:
                os._exit(0)


def main(argv):
    prop, tier, seed, shard, nshards, collect, budget_s, out = argv
    from . import runner

    threading.Thread(target=_watchdog, args=(out,), daemon=True).start()
    res = runner._worker((prop, tier, int(seed), int(shard), int(nshards), collect == "1", float(budget_s)))
    _write(out, res)
    return 0


if __name__ == "__main__":
    sys.exit(main(sys.argv[1:]))
