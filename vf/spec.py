"""Problem-spec strategies (DESIGN.md section 2.1).  Specs are plain JSON values.

Generation is by construction: every spec emitted is a well-formed problem according to the
documentation / the library's own callers.  Profiles switch element families on and off.
"""
import copy

from hypothesis import strategies as st

TASK_CONSTRAINTS = [
    "TaskStartAt", "TaskStartAfter", "TaskEndAt", "TaskEndBefore", "TaskPrecedence",
    "TasksStartSynced", "TasksEndSynced", "TasksDontOverlap", "TasksContiguous",
    "UnorderedTaskGroup", "OrderedTaskGroup", "ScheduleNTasksInTimeIntervals",
]
OPTIONAL_RULES = [
    "OptionalTaskForceSchedule", "OptionalTaskConditionSchedule", "OptionalTasksDependency",
    "ForceScheduleNOptionalTasks",
]
RESOURCE_CONSTRAINTS = [
    "WorkLoad", "ResourceUnavailable", "ResourcePeriodicallyUnavailable", "ResourceInterrupted",
    "ResourcePeriodicallyInterrupted", "ResourceNonDelay", "ResourceTasksDistance", "SameWorkers",
    "DistinctWorkers",
]
FOL_TYPES = ["Not", "Or", "And", "Xor", "Implies", "IfThenElse"]
SIMPLE_LEAVES = [
    "TaskStartAt", "TaskStartAfter", "TaskEndAt", "TaskEndBefore", "TaskPrecedence",
    "TasksStartSynced", "TasksEndSynced", "TasksDontOverlap",
]

DEFAULT_PROFILE = dict(
    min_tasks=1,
    max_tasks=4,
    p_optional=30,
    p_no_horizon=15,
    horizon=(2, 8),
    p_resources=60,
    task_constraints=(0, 2),
    optional_rules=(0, 1),
    resource_constraints=(0, 1),
    buffers=(0, 0),
    fol=(0, 0),
    optional_constraints=0,  # % of top-level constraints marked optional
    indicators=(0, 0),
    objectives=(0, 0),
    focus=None,  # list of constraint types of which at least one instance is forced
    p_release=30,
    p_due=30,
    p_work_amount=25,
    task_kinds=("fixed",) * 5 + ("var",) * 3 + ("zero",) * 2,
    exclude=(),  # constraint / indicator types never generated (known findings)
    p_cumulative=30,
    p_select=45,
    p_dynamic=15,
    p_delay=15,
    p_cumulative_in_select=8,  # a selection may list a cumulative worker (test_cumulative_select_worker_1)
    p_double_require=0,  # % of selections that list a worker the task already requires directly
    p_group_precedence=0,  # % of specs with a TaskPrecedence whose operand(s) are task groups ("GroupPrecedence")
)


def profile(**kw):
    p = dict(DEFAULT_PROFILE)
    p.update(kw)
    return p


class Gen:
    """stateful helper around hypothesis' draw"""

    def __init__(self, draw, prof):
        self.draw = draw
        self.p = prof
        self.n_names = 0

    def chance(self, pct):
        pct = int(pct)
        if pct <= 0:
            return False
        if pct >= 100:
            return True
        return self.draw(st.integers(0, 99)) < pct

    def int(self, lo, hi):
        return self.draw(st.integers(lo, hi))

    def pick(self, seq):
        return self.draw(st.sampled_from(list(seq)))

    def subset(self, seq, lo, hi):
        seq = list(seq)
        hi = min(hi, len(seq))
        n = self.int(lo, hi)
        perm = self.draw(st.permutations(seq))
        return list(perm[:n])

    def name(self, prefix):
        self.n_names += 1
        return f"{prefix}{self.n_names}"

    def interval(self, lo, hi):
        a = self.int(lo, hi - 1)
        b = self.int(a + 1, hi)
        return [a, b]

    def cnt(self, rng):
        return self.int(rng[0], rng[1])


# ---------------------------------------------------------------------------------------------
def gen_task(g, name, H):
    Hh = H if H is not None else 6
    kind = g.pick(g.p["task_kinds"])
    t = {"name": name, "kind": kind, "optional": g.chance(g.p["p_optional"])}
    if kind == "fixed":
        t["duration"] = g.int(1, max(1, min(3, Hh)))
    elif kind == "var":
        mn = g.int(0, 2)
        t["min_duration"] = mn
        if g.chance(60):
            t["max_duration"] = g.int(max(1, mn), mn + 2)
        if g.chance(25):
            t["allowed"] = sorted(set(g.draw(st.lists(st.integers(1, 4), min_size=1, max_size=3))))
    grid = sorted(set([-1, 0, 1, 2, Hh - 1, Hh, Hh + 1]))
    ml = min_len(t)
    if g.chance(g.p["p_release"]):
        t["release"] = g.pick(grid) if g.chance(15) else g.int(0, max(0, Hh - ml))
    if g.chance(g.p["p_due"]):
        lo = max(0, t.get("release") or 0) + ml
        t["due"] = g.pick(grid) if g.chance(15) or lo > Hh else g.int(lo, Hh)
        t["deadline"] = g.chance(70)
    if g.chance(20):
        t["priority"] = g.int(0, 3)
    return t


def max_len(t, H):
    if t["kind"] == "fixed":
        return t["duration"]
    if t["kind"] == "zero":
        return 0
    Hh = H if H is not None else 8
    m = t.get("max_duration")
    if t.get("allowed"):
        m = max(t["allowed"]) if m is None else min(m, max(t["allowed"]))
    return Hh if m is None else m


def min_len(t):
    if t["kind"] == "fixed":
        return t["duration"]
    if t["kind"] == "zero":
        return 0
    m = t.get("min_duration") or 0
    if t.get("allowed"):
        m = max(m, min(t["allowed"]))
    return m


def gen_cost(g):
    k = g.pick(["const", "const", "lin", "poly"])
    if k == "const":
        return {"t": "const", "v": g.int(0, 5)}
    zero_at_0 = g.chance(30)  # a cost function that vanishes at t = 0 is still a cost function
    if k == "lin":
        return {"t": "lin", "a": g.int(-2, 3), "b": 0 if zero_at_0 else g.int(0, 5)}
    return {"t": "poly", "c": [g.int(-1, 2), g.int(-2, 3), 0 if zero_at_0 else g.int(0, 5)]}


def gen_resources(g, spec, H):
    tasks = spec["tasks"]
    nw = g.int(*g.p.get("n_workers", (1, 3)))
    for i in range(nw):
        w = {"name": f"W{i+1}"}
        if g.chance(35):
            w["productivity"] = g.int(0, 3)
        if g.chance(35):
            w["cost"] = gen_cost(g)
        spec["workers"].append(w)
    if g.chance(g.p["p_cumulative"]):
        c = {"name": "K1", "size": g.int(2, 3)}
        if g.chance(40):
            c["productivity"] = g.int(1, 4)
        if g.chance(30):
            c["cost"] = {"t": "const", "v": g.int(0, 6)}
        spec["cumulative"].append(c)
    wnames = [w["name"] for w in spec["workers"]]
    for t in tasks:
        if not g.chance(75):
            continue
        used = set()
        n_assign = g.int(1, 2)
        for _ in range(n_assign):
            free = [w for w in wnames if w not in used]
            if len(free) >= 2 and g.chance(g.p["p_select"] * 0.6):
                k = "select"
            elif spec["cumulative"] and "K1" not in used and g.chance(g.p["p_cumulative"] * 0.8):
                k = "cumulative"
            elif free:
                k = "worker"
            else:
                break
            if k == "worker":
                w = g.pick(free)
                used.add(w)
                a = {"task": t["name"], "res": w}
                if g.chance(g.p["p_dynamic"]):
                    a["dynamic"] = True
                elif g.chance(g.p["p_delay"]) and min_len(t) >= 1:
                    d_in = g.int(0, min_len(t))
                    e_out = g.int(0, min_len(t) - d_in)
                    if d_in:
                        a["delay_in"] = d_in
                    if e_out:
                        a["early_out"] = e_out
                spec["assign"].append(a)
            elif k == "cumulative":
                used.add("K1")
                spec["assign"].append({"task": t["name"], "res": "K1"})
            else:
                ws = g.subset(free, 2, 3)
                direct = [a_["res"] for a_ in spec["assign"] if a_["task"] == t["name"] and a_["res"] in wnames]
                if direct and g.chance(g.p.get("p_double_require", 0)):
                    # a worker the task already requires is also listed as an alternative: the library refuses a worker
                    # required twice by one task (ValueError); if it accepts, the direct requirement still binds
                    ws = [g.pick(direct)] + ws[:2]
                if spec["cumulative"] and "K1" not in used and g.chance(g.p.get("p_cumulative_in_select", 0)):
                    ws = ws[:2] + ["K1"]  # a selection may list a cumulative worker (test_cumulative_select_worker_1)
                used.update(ws)
                sname = f"S{len(spec['selects'])+1}"
                spec["selects"].append(
                    {"name": sname, "workers": ws, "n": g.int(1, len(ws)), "kind": g.pick(["exact", "exact", "min", "max"])}
                )
                spec["assign"].append({"task": t["name"], "res": sname})
        if used and g.chance(g.p["p_work_amount"]):
            prod = 0
            wmap = {w["name"]: w for w in spec["workers"]}
            for u in used:
                if u in wmap:
                    pr = wmap[u].get("productivity")
                    prod += 1 if pr is None else pr
                else:
                    prod += 1
            cap = prod * min(max_len(t, H), 4)
            if cap >= 1 and g.chance(90):
                t["work_amount"] = g.int(1, cap)
            elif cap >= 1 or g.chance(10):
                t["work_amount"] = g.int(cap + 1, 2 * cap + 2)


def assigned_resources(spec):
    """{resource name (worker or cumulative): number of busy intervals}"""
    cnt = {}
    sel = {s["name"]: s for s in spec["selects"]}
    for a in spec["assign"]:
        if a["res"] in sel:
            for w in sel[a["res"]]["workers"]:
                cnt[w] = cnt.get(w, 0) + 1
        else:
            cnt[a["res"]] = cnt.get(a["res"], 0) + 1
    return cnt


def gen_intervals(g, H, lo_n=1, hi_n=2, top=None):
    Hh = (H if H is not None else 6) if top is None else top
    out = []
    seen = g.__dict__.setdefault("intervals_seen", [])
    for _ in range(g.int(lo_n, hi_n)):
        if seen and top is None and g.chance(g.p.get("p_reuse_window", 35)):
            iv = list(g.pick(seen))  # the same window as another constraint (e.g. one WorkLoad window on two workers)
        else:
            iv = g.interval(0, max(1, Hh))
        if iv not in out:  # a repeated interval is rejected by the library ("assertion already added")
            out.append(iv)
            if top is None and iv not in seen:
                seen.append(iv)
    return out


def gen_task_constraint(g, ty, spec, H):
    names = [t["name"] for t in spec["tasks"]]
    Hh = H if H is not None else 6
    c = {"type": ty, "name": g.name("c")}
    val = lambda: g.pick([-1, Hh + 1]) if g.chance(8) else g.int(0, Hh)
    if ty in ("TaskStartAt", "TaskEndAt"):
        c.update(task=g.pick(names), value=val())
    elif ty in ("TaskStartAfter", "TaskEndBefore"):
        c.update(task=g.pick(names), value=val(), kind=g.pick(["lax", "strict"]))
    elif ty == "TaskPrecedence":
        if len(names) < 2:
            return None
        a, b = g.subset(names, 2, 2)
        c.update(before=a, after=b, offset=g.pick([0, 0, 1, 2, 3, 5]), kind=g.pick(["lax", "strict", "tight"]))
    elif ty in ("TasksStartSynced", "TasksEndSynced", "TasksDontOverlap"):
        if len(names) < 2:
            return None
        a, b = g.subset(names, 2, 2)
        c.update(t1=a, t2=b)
    elif ty == "TasksContiguous":
        if len(names) < 2:
            return None
        c.update(tasks=g.subset(names, 2, 4))
    elif ty in ("UnorderedTaskGroup", "OrderedTaskGroup"):
        c.update(tasks=g.subset(names, 1, 4))
        mode = g.pick(["interval", "interval", "length", "none"])
        if mode == "interval":
            c["interval"] = g.interval(0, max(1, Hh))
        elif mode == "length":
            c["length"] = g.int(1, Hh)
        if ty == "OrderedTaskGroup":
            c["kind"] = g.pick(["lax", "strict", "tight"])
    elif ty == "ScheduleNTasksInTimeIntervals":
        ts = g.subset(names, 1, 4)
        c.update(tasks=ts, n=g.int(0, len(ts)), intervals=gen_intervals(g, H, 1, 3), kind=g.pick(["exact", "min", "max"]))
    else:
        raise ValueError(ty)
    return c


GROUP_TYPES = ("UnorderedTaskGroup", "OrderedTaskGroup")


def gen_group_precedence(g, spec, H):
    """TaskPrecedence with a task group as `task_before` and/or `task_after` (the field type of the library allows it,
    test_group_of_tasks.py uses it).  Returns the new constraints (missing groups first).  The groups concerned and the
    precedence stay top-level and mandatory, and every group is the operand of one precedence only, so that the window
    unknowns of a group are constrained by its own members and by that single precedence (exact reference rule)."""
    names = [t["name"] for t in spec["tasks"]]
    used = {c.get(k) for c in spec["constraints"] if c["type"] == "GroupPrecedence" for k in ("gbefore", "gafter")}
    free = [c["name"] for c in spec["constraints"] if c["type"] in GROUP_TYPES and c["name"] not in used and not c.get("optional")]
    out = []

    def group():
        if free and g.chance(50):
            n = g.pick(free)
            free.remove(n)
            return n
        c = gen_task_constraint(g, g.pick(GROUP_TYPES), spec, H)
        out.append(c)
        return c["name"]

    shape = g.pick(["gt", "gt", "tg", "tg", "gg"])
    c = {"type": "GroupPrecedence", "name": g.name("c"), "offset": g.pick([0, 0, 1, 2]), "kind": g.pick(["lax", "strict", "tight"])}
    if shape[0] == "g":
        c["gbefore"] = group()
    else:
        c["before"] = g.pick(names)
    if shape[1] == "g":
        c["gafter"] = group()
    else:
        c["after"] = g.pick(names)
    out.append(c)
    return out


def gen_cond(g, spec, H, exclude_task=None):
    """raw boolean expression over documented task variables"""
    names = [t["name"] for t in spec["tasks"] if t["name"] != exclude_task]
    if g.p.get("cond_mandatory_only"):
        # the variables of an unscheduled optional task hold an arbitrary parking instant: an expression "as written"
        # over them has no schedule-level meaning
        names = [t["name"] for t in spec["tasks"] if t["name"] != exclude_task and not t["optional"]]
    Hh = H if H is not None else 6
    if not names or g.chance(10):
        return {"op": "bool", "v": g.chance(50)}
    t = g.pick(names)
    attr = g.pick(["start", "end"])
    op = g.pick(["<=", "<", "==", "!=", ">=", ">"])
    lhs = {"op": "var", "task": t, "attr": attr}
    if len(names) >= 2 and g.chance(30):
        t2 = g.pick([n for n in names if n != t])
        rhs = {"op": "+", "a": {"op": "var", "task": t2, "attr": g.pick(["start", "end"])}, "b": {"op": "const", "v": g.int(-1, 2)}}
    else:
        rhs = {"op": "const", "v": g.int(0, Hh)}
    return {"op": op, "a": lhs, "b": rhs}


def gen_optional_rule(g, ty, spec, H):
    names = [t["name"] for t in spec["tasks"]]
    opt = [t["name"] for t in spec["tasks"] if t["optional"]]
    if not opt:
        return None
    c = {"type": ty, "name": g.name("c")}
    if ty == "OptionalTaskForceSchedule":
        c.update(task=g.pick(opt), flag=g.chance(50))
    elif ty == "OptionalTaskConditionSchedule":
        t = g.pick(opt)
        c.update(task=t, cond=gen_cond(g, spec, H, exclude_task=t))
    elif ty == "OptionalTasksDependency":
        t2 = g.pick(opt)
        others = [n for n in names if n != t2]
        if not others:
            return None
        c.update(t1=g.pick(others), t2=t2)
    elif ty == "ForceScheduleNOptionalTasks":
        ts = g.subset(opt, 1, 4)
        c.update(tasks=ts, n=g.int(1, len(ts)), kind=g.pick(["exact", "min", "max"]))
    return c


def gen_resource_constraint(g, ty, spec, H):
    Hh = H if H is not None else 6
    busy = assigned_resources(spec)
    workers = [w["name"] for w in spec["workers"] if busy.get(w["name"], 0) >= 1]
    cumul = [c["name"] for c in spec["cumulative"] if busy.get(c["name"], 0) >= 1]
    c = {"type": ty, "name": g.name("c")}
    if ty in ("SameWorkers", "DistinctWorkers"):
        if len(spec["selects"]) < 2:
            return None
        a, b = g.subset([s["name"] for s in spec["selects"]], 2, 2)
        c.update(s1=a, s2=b)
        return c
    if ty in ("ResourceNonDelay", "ResourceTasksDistance"):
        cands = [w for w in workers if busy[w] >= 2]
        if not cands:
            return None
        c["res"] = g.pick(cands)
        if ty == "ResourceTasksDistance":
            c.update(distance=g.int(0, 3), mode=g.pick(["exact", "min", "max"]))
            if g.chance(40):
                c["intervals"] = gen_intervals(g, H, 1, 2)
        return c
    pool = workers + (cumul if ty not in g.p.get("no_cumulative", ()) else [])
    if not pool:
        return None
    c["res"] = g.pick(pool)
    if ty == "WorkLoad":
        ivs = []
        seen = set()
        for lo, hi in gen_intervals(g, H, 1, 2):
            if (lo, hi) in seen:
                continue
            seen.add((lo, hi))
            ivs.append([lo, hi, g.int(0, hi - lo + 1)])
        c.update(intervals=ivs, kind=g.pick(["max", "max", "min", "exact"]))
    elif ty in ("ResourceUnavailable", "ResourceInterrupted"):
        c["intervals"] = gen_intervals(g, H, 1, 2)
    elif ty in ("ResourcePeriodicallyUnavailable", "ResourcePeriodicallyInterrupted"):
        period = g.int(2, 5)
        c["period"] = period
        c["intervals"] = gen_intervals(g, H, 1, 2, top=period)
        if g.chance(35):
            c["offset"] = g.int(1, period)
        if g.chance(30):
            c["start"] = g.int(1, Hh)
        if g.chance(30):
            c["end"] = g.int(max(1, c.get("start", 0) + 1), Hh + 1)
    return c


def gen_buffer(g, spec, H, idx):
    names = [t["name"] for t in spec["tasks"]]
    b = {"name": f"B{idx}", "concurrent": g.chance(50)}
    if g.chance(85):
        b["initial"] = g.int(0, 5)
    if "initial" not in b or g.chance(25):
        b["final"] = g.int(0, 8)
    if g.chance(45):
        b["lower"] = g.int(-1, 2)
    if g.chance(45):
        b["upper"] = g.int(3, 8)
    out = []
    seen = set()
    for _ in range(g.int(1, 4)):
        t = g.pick(names)
        k = g.pick(["TaskUnloadBuffer", "TaskLoadBuffer"])
        if (t, k) in seen:
            continue
        seen.add((t, k))
        out.append({"type": k, "name": g.name("c"), "task": t, "buffer": b["name"], "qty": g.int(1, 3)})
    return b, out


def gen_leaf(g, spec, H, leaves=SIMPLE_LEAVES):
    pool = getattr(g, "leaf_pool", None)
    if pool and g.chance(g.p.get("p_shared_operand", 0)):
        return {"ref": g.pick(pool)}  # an operand object used in a second place
    if g.chance(35):
        return gen_cond(g, spec, H)
    for _ in range(4):
        ty = g.pick(leaves)
        if ty in TASK_CONSTRAINTS:
            c = gen_task_constraint(g, ty, spec, H)
        else:
            c = None
        if c is not None:
            if pool is None:
                g.leaf_pool = pool = []
            pool.append(c["name"])
            return c
    return gen_cond(g, spec, H)


def gen_formula(g, spec, H, depth, leaves=SIMPLE_LEAVES):
    if depth <= 0 or g.chance(30):
        return gen_leaf(g, spec, H, leaves)
    ty = g.pick(FOL_TYPES)
    sub = lambda: gen_formula(g, spec, H, depth - 1, leaves)
    c = {"type": ty, "name": g.name("c")}
    def fol_cond():
        cd = gen_cond(g, spec, H)
        if g.chance(12):
            cd = {"op": "bool", "v": g.chance(50)}
        if cd["op"] == "bool" and g.chance(60):
            cd["py"] = True  # a python constant instead of a z3 term
        return cd

    if ty == "Not":
        c["c"] = sub()
    elif ty in ("Or", "And"):
        c["cs"] = [sub() for _ in range(g.int(1, 3))]
    elif ty == "Xor":
        c["c1"], c["c2"] = sub(), sub()
    elif ty == "Implies":
        c["cond"] = fol_cond()
        c["cs"] = [sub() for _ in range(g.int(1, 2))]
    else:
        c["cond"] = fol_cond()
        c["then"] = [sub() for _ in range(g.int(1, 2))]
        c["else"] = [sub() for _ in range(g.int(1, 2))]
    return c


def gen_toplevel_formula(g, spec, H, depth=2, leaves=SIMPLE_LEAVES):
    ty = g.pick(FOL_TYPES + ["ConstraintFromExpression"])
    if ty == "ConstraintFromExpression":
        return {"type": ty, "name": g.name("c"), "expr": gen_cond(g, spec, H)}
    for _ in range(5):
        keep = list(getattr(g, "leaf_pool", None) or [])
        f = gen_formula(g, spec, H, depth, leaves)
        if "type" in f and f["type"] in FOL_TYPES:
            return f
        g.leaf_pool = keep  # the discarded attempt's leaves do not exist
    return {"type": "ConstraintFromExpression", "name": g.name("c"), "expr": gen_cond(g, spec, H)}


# ---------------------------------------------------------------------------------------------
INDICATOR_TYPES = [
    "Tardiness", "Earliness", "NumberOfTardyTasks", "MaximumLateness", "ResourceUtilization",
    "ResourceIdle", "NumberTasksAssigned", "ResourceCost", "MaxBufferLevel", "MinBufferLevel",
    "FromMathExpression",
]


def gen_arith(g, spec, H):
    names = [t["name"] for t in spec["tasks"]]
    t = g.pick(names)
    e = {"op": "var", "task": t, "attr": g.pick(["start", "end"])}
    k = g.pick(g.p["arith_kinds"]) if g.p.get("arith_kinds") else g.int(0, 3)
    if k == 1 and len(names) >= 2:
        t2 = g.pick([n for n in names if n != t])
        e = {"op": g.pick(g.p.get("arith_ops") or ["+", "-"]), "a": e, "b": {"op": "var", "task": t2, "attr": g.pick(["start", "end"])}}
    elif k == 2:
        e = {"op": "*", "a": {"op": "const", "v": g.int(1, 3)}, "b": e}
    elif k == 3:
        e = {"op": "+", "a": e, "b": {"op": "const", "v": g.int(-2, 3)}}
    return e


def gen_indicator(g, ty, spec, H, idx):
    names = [t["name"] for t in spec["tasks"]]
    busy = assigned_resources(spec)
    i = {"id": f"i{idx}", "type": ty}
    if ty in ("Tardiness", "Earliness", "NumberOfTardyTasks", "MaximumLateness"):
        with_due = [t["name"] for t in spec["tasks"] if t.get("due") is not None]
        if not with_due:
            return None
        if len(with_due) == len(names) and g.chance(40):
            i["tasks"] = None
        else:
            i["tasks"] = g.subset(with_due, 1, 4)
    elif ty in ("ResourceUtilization", "NumberTasksAssigned"):
        pool = [r for r in busy]
        if not pool:
            return None
        i["res"] = g.pick(sorted(pool))
    elif ty == "ResourceIdle":
        pool = [w["name"] for w in spec["workers"] if busy.get(w["name"], 0) >= 1]
        if not pool:
            return None
        i["res"] = g.pick(pool)
    elif ty == "ResourceCost":
        pool = sorted(busy)
        if not pool:
            return None
        i["ress"] = g.subset(pool, 1, 3)
    elif ty in ("MaxBufferLevel", "MinBufferLevel"):
        if not spec["buffers"]:
            return None
        i["buffer"] = g.pick([b["name"] for b in spec["buffers"]])
    elif ty == "FromMathExpression":
        i["name"] = f"ind{idx}"
        i["expr"] = gen_arith(g, spec, H)
        opt = {t["name"] for t in spec["tasks"] if t["optional"]}
        if H is not None and not (_expr_tasks(i["expr"]) & opt) and g.chance(g.p.get("p_indicator_bounds", 0)):
            # documented 'bounds' of an indicator: must be true bounds, here by interval arithmetic over [0, H]
            i["bounds"] = list(expr_bounds(i["expr"], H))
    return i


def expr_bounds(ast, H):
    op = ast["op"]
    if op == "const":
        return ast["v"], ast["v"]
    if op == "var":
        return 0, H
    a, b = expr_bounds(ast["a"], H), expr_bounds(ast["b"], H)
    if op == "+":
        return a[0] + b[0], a[1] + b[1]
    if op == "-":
        return a[0] - b[1], a[1] - b[0]
    if op == "*":
        prods = [x * y for x in a for y in b]
        return min(prods), max(prods)
    raise ValueError(op)


MIN_OBJECTIVES = [
    "MinimizeMakespan", "MinimizeResourceCost", "Priorities", "TasksStartEarliest", "MinimizeGreatestStartTime",
    "MinimizeFlowtime", "MinimizeFlowtimeSingleResource", "MinimizeMaxBufferLevel", "MinimizeIndicator",
]
MAX_OBJECTIVES = ["MaximizeResourceUtilization", "TasksStartLatest", "MaximizeMaxBufferLevel", "MaximizeIndicator"]


def _expr_tasks(ast):
    if not isinstance(ast, dict):
        return set()
    if ast.get("op") == "var":
        return {ast["task"]}
    out = set()
    for k in ("a", "b"):
        out |= _expr_tasks(ast.get(k))
    for x in ast.get("args") or []:
        out |= _expr_tasks(x)
    return out


def gen_objective(g, ty, spec, H, idx):
    names = [t["name"] for t in spec["tasks"]]
    busy = assigned_resources(spec)
    workers = [w["name"] for w in spec["workers"] if busy.get(w["name"], 0) >= 1]
    o = {"type": ty, "id": f"o{idx}"}
    if g.chance(30):
        o["weight"] = g.int(1, 3)
    if ty in ("MaximizeResourceUtilization", "MinimizeFlowtimeSingleResource"):
        if not workers:
            return None
        o["res"] = g.pick(workers)
        if ty == "MinimizeFlowtimeSingleResource" and g.chance(40):
            o["interval"] = g.interval(0, max(1, H if H is not None else 6))
    elif ty == "MinimizeResourceCost":
        pool = sorted(busy)
        if not pool or H is None:
            return None  # cost functions may be negative for large t: not bounded without a horizon
        o["ress"] = g.subset(pool, 1, 3)
    elif ty in ("TasksStartLatest", "MinimizeGreatestStartTime", "MinimizeFlowtime"):
        o["tasks"] = None if g.chance(50) else g.subset(names, 1, 4)
    elif ty in ("MaximizeMaxBufferLevel", "MinimizeMaxBufferLevel"):
        if not spec["buffers"]:
            return None
        o["buffer"] = g.pick([b["name"] for b in spec["buffers"]])
    elif ty in ("MinimizeIndicator", "MaximizeIndicator"):
        if H is None:
            return None  # a user expression is not bounded without a horizon
        opt = {t["name"] for t in spec["tasks"] if t["optional"]}

        def parking_free(i):
            # the value must not depend on where an unscheduled optional task is parked (an arbitrary instant)
            if i["type"] == "FromMathExpression":
                return not (_expr_tasks(i["expr"]) & opt)
            if i["type"] == "MaximumLateness":
                return not (set(i.get("tasks") or names) & opt)
            return True

        pool = [i["id"] for i in spec["indicators"] if parking_free(i)]
        if not pool:
            return None
        o["ind"] = g.pick(pool)
        o.setdefault("weight", 1)
        if g.chance(g.p.get("p_weight_zero", 15)):
            o["weight"] = 0  # "any weights": an objective of weight 0 does not count in the weighted sum
    return o


def gen_objectives(g, spec, H, n, direction=None):
    direction = direction or g.pick(["min", "min", "max"])
    pool = list(MIN_OBJECTIVES if direction == "min" else MAX_OBJECTIVES)
    if g.p.get("only_objectives"):
        pool = [x for x in pool if x in g.p["only_objectives"]] or pool
    out, seen = [], set()
    for k in range(n):
        for _ in range(4):
            ty = g.pick(pool)
            if ty in seen and ty not in ("MinimizeIndicator", "MaximizeIndicator"):
                continue
            o = gen_objective(g, ty, spec, H, len(out) + 1)
            if o is None:
                continue
            if ty in ("MinimizeIndicator", "MaximizeIndicator") and any(x.get("ind") == o["ind"] for x in out):
                continue
            seen.add(ty)
            out.append(o)
            break
    return out


# ---------------------------------------------------------------------------------------------
@st.composite
def specs(draw, prof=None):
    prof = prof or DEFAULT_PROFILE
    g = Gen(draw, prof)
    H = None if g.chance(prof["p_no_horizon"]) else g.int(*prof["horizon"])
    if H is not None and prof.get("horizon_choices") and g.chance(prof.get("p_horizon_choices", 40)):
        H = g.pick(prof["horizon_choices"])
    spec = {
        "name": "P",
        "horizon": H,
        "tasks": [],
        "workers": [],
        "cumulative": [],
        "selects": [],
        "assign": [],
        "buffers": [],
        "constraints": [],
        "indicators": [],
        "objectives": [],
    }
    nt = g.int(prof["min_tasks"], prof["max_tasks"])
    for i in range(nt):
        spec["tasks"].append(gen_task(g, f"T{i+1}", H))
    if g.chance(prof["p_resources"]):
        gen_resources(g, spec, H)

    excl = set(prof.get("exclude") or ())
    wanted = []
    focus = list(prof.get("focus") or [])
    if focus:
        wanted.append(g.pick(focus))
    tc = [t for t in TASK_CONSTRAINTS if t not in excl]
    orc = [t for t in OPTIONAL_RULES if t not in excl]
    rc = [t for t in RESOURCE_CONSTRAINTS if t not in excl]
    for _ in range(g.cnt(prof["task_constraints"])):
        if tc:
            wanted.append(g.pick(tc))
    for _ in range(g.cnt(prof["optional_rules"])):
        if orc:
            wanted.append(g.pick(orc))
    for _ in range(g.cnt(prof["resource_constraints"])):
        if rc:
            wanted.append(g.pick(rc))
    for ty in wanted:
        if ty in TASK_CONSTRAINTS:
            c = gen_task_constraint(g, ty, spec, H)
        elif ty in OPTIONAL_RULES:
            c = gen_optional_rule(g, ty, spec, H)
        elif ty in RESOURCE_CONSTRAINTS:
            c = gen_resource_constraint(g, ty, spec, H)
        else:
            c = None
        if c is not None:
            spec["constraints"].append(c)

    if prof.get("p_group_precedence") and g.chance(prof["p_group_precedence"]):
        spec["constraints"].extend(gen_group_precedence(g, spec, H))

    if prof.get("p_interleave"):
        # declare some resource constraints between two assignments of their resource
        sel = {s_["name"]: s_ for s_ in spec["selects"]}
        for c in spec["constraints"]:
            if c["type"] not in ("ResourceUnavailable", "WorkLoad", "ResourcePeriodicallyUnavailable") or not g.chance(prof["p_interleave"]):
                continue
            idx = [i for i, a in enumerate(spec["assign"]) if a["res"] == c["res"] or (a["res"] in sel and c["res"] in sel[a["res"]]["workers"])]
            if len(idx) >= 2:
                c["after_assign"] = g.pick(idx[:-1]) + 1

    for bi in range(g.cnt(prof["buffers"])):
        b, accesses = gen_buffer(g, spec, H, bi + 1)
        spec["buffers"].append(b)
        spec["constraints"].extend(accesses)

    for _ in range(g.cnt(prof["fol"])):
        spec["constraints"].append(gen_toplevel_formula(g, spec, H, prof.get("fol_depth", 2), prof.get("fol_leaves", SIMPLE_LEAVES)))

    if prof["optional_constraints"]:
        in_gp = {c.get(k) for c in spec["constraints"] if c["type"] == "GroupPrecedence" for k in ("gbefore", "gafter")}
        optable = [c for c in spec["constraints"] if c["type"] not in ("TaskUnloadBuffer", "TaskLoadBuffer", "GroupPrecedence") and c["name"] not in in_gp]
        marked = []
        for c in optable:
            if g.chance(prof["optional_constraints"]):
                c["optional"] = True
                marked.append(c["name"])
        if marked and g.chance(60):
            cs = g.subset(marked, 1, 3)
            spec["constraints"].append(
                {"type": "ForceApplyNOptionalConstraints", "name": g.name("c"), "cs": cs, "n": g.int(1, len(cs)), "kind": g.pick(["exact", "min", "max"])}
            )
        if marked and g.chance(prof.get("p_nested_force_apply", 0)):
            # a force-apply rule used as an operand of a connective (it is a Constraint like any other)
            cs = g.subset(marked, 1, 3)
            fa = {"type": "ForceApplyNOptionalConstraints", "name": g.name("c"), "cs": cs, "n": g.int(1, len(cs)), "kind": g.pick(["exact", "min", "min", "max"])}
            ty = g.pick(FOL_TYPES)
            node = {"type": ty, "name": g.name("c")}
            cd = gen_cond(g, spec, H)
            if ty == "Not":
                node["c"] = fa
            elif ty in ("And", "Or"):
                node["cs"] = [fa] + [gen_leaf(g, spec, H) for _ in range(g.int(0, 1))]
            elif ty == "Xor":
                node["c1"], node["c2"] = (fa, gen_leaf(g, spec, H)) if g.chance(50) else (gen_leaf(g, spec, H), fa)
            elif ty == "Implies":
                node["cond"], node["cs"] = cd, [fa]
            else:
                node["cond"] = cd
                node["then"], node["else"] = ([fa], [gen_leaf(g, spec, H)]) if g.chance(50) else ([gen_leaf(g, spec, H)], [fa])
            spec["constraints"].append(node)

    itypes = [t for t in (prof.get("indicator_types") or INDICATOR_TYPES) if t not in excl]
    seen_builtin = set()
    for k in range(g.cnt(prof["indicators"])):
        ty = g.pick(itypes)
        i = gen_indicator(g, ty, spec, H, k + 1)
        if i is None:
            continue
        # two built-in indicators of one class over the same target would share a name
        key = (ty, str(i.get("tasks")), i.get("res"), str(i.get("ress")), i.get("buffer"))
        if ty != "FromMathExpression":
            if key in seen_builtin:
                continue
            seen_builtin.add(key)
        spec["indicators"].append(i)
    no = g.cnt(prof["objectives"])
    if no:
        # an objective must be bounded: maximisation only with a declared horizon
        spec["objectives"] = gen_objectives(g, spec, H, no, "min" if H is None else prof.get("objective_direction"))
    pct = prof.get("indicator_constraints", 0)
    if pct:
        Hh = H if H is not None else 6
        for i in spec["indicators"]:
            if not g.chance(pct):
                continue
            if i["type"] == "ResourceUtilization":
                val = g.pick([0, 25, 50, 100, g.int(0, 100)])
            elif i["type"] == "ResourceCost":
                val = g.int(0, 12)
            else:
                val = g.int(0, Hh)
            if g.chance(50):
                c = {"type": "IndicatorTarget", "name": g.name("c"), "ind": i["id"], "value": val}
            else:
                c = {"type": "IndicatorBounds", "name": g.name("c"), "ind": i["id"]}
                k = g.pick(["lo", "hi", "both"])
                if k in ("lo", "both"):
                    c["lo"] = val
                if k in ("hi", "both"):
                    c["hi"] = val + g.int(0, 3)
            if prof["optional_constraints"] and g.chance(prof["optional_constraints"]):
                c["optional"] = True
            spec["constraints"].append(c)
    return spec


# ---------------------------------------------------------------------------------------------
# steering pins
# ---------------------------------------------------------------------------------------------
def pin_keys(spec):
    ints, bools = [], []
    for t in spec["tasks"]:
        ints.append(["task", t["name"], "start"])
        ints.append(["task", t["name"], "end"])
        if t["kind"] == "var":
            ints.append(["task", t["name"], "duration"])
        if t["optional"]:
            bools.append(["task", t["name"], "scheduled"])
    sel = {s["name"]: s for s in spec["selects"]}
    for ai, a in enumerate(spec["assign"]):
        if a["res"] in sel:
            for w in sel[a["res"]]["workers"]:
                bools.append(["sel", ai, w])
        if a.get("dynamic"):
            ints.append(["busy", ai, a["res"], "start"])
            ints.append(["busy", ai, a["res"], "end"])
    if spec.get("horizon") is None:
        ints.append(["horizon"])
    return ints, bools


@st.composite
def pin_sets(draw, spec, n_sets=6, max_atoms=3):
    ints, bools = pin_keys(spec)
    H = spec["horizon"] if spec.get("horizon") is not None else 8
    out = []
    for _ in range(n_sets):
        atoms = []
        for _ in range(draw(st.integers(1, max_atoms))):
            if bools and draw(st.integers(0, 99)) < 30:
                atoms.append({"flag": draw(st.sampled_from(bools)), "val": draw(st.booleans())})
            else:
                lhs = draw(st.sampled_from(ints))
                op = draw(st.sampled_from(["==", "==", "!=", "<", "<=", ">", ">="]))
                if len(ints) > 1 and draw(st.integers(0, 99)) < 25:
                    rhs = {"var": draw(st.sampled_from([k for k in ints if k != lhs])), "plus": draw(st.integers(-2, 2))}
                else:
                    rhs = {"const": draw(st.integers(-3, H + 3))}
                atoms.append({"lhs": lhs, "op": op, "rhs": rhs})
        out.append(atoms)
    return out


@st.composite
def spec_with_pins(draw, prof=None, n_sets=6, n_cands=0):
    spec = draw(specs(prof))
    pins = draw(pin_sets(spec, n_sets=n_sets)) if n_sets else []
    case = {"spec": spec, "pins": pins, "seed": draw(st.integers(0, 2**30))}
    if n_cands:
        k = len(spec["tasks"]) + len(spec["assign"])
        case["cand_ints"] = draw(st.lists(st.lists(st.integers(0, 40), min_size=k, max_size=k), min_size=n_cands, max_size=n_cands))
    return case
